#!/venv/bin/python
"""keep_seed.py <src dir> <seed id> <property> <caught-by props comma list> "<needs>"
Copies patch.diff, demo.py, notes.md into /verif/seeded/<seed id>/ and writes meta.json."""
import json, os, shutil, sys
src, sid, prop, caught, needs = sys.argv[1:6]
dst = f'/verif/seeded/{sid}'
os.makedirs(dst, exist_ok=True)
for f in ('patch.diff', 'demo.py', 'notes.md'):
    if os.path.exists(os.path.join(src, f)):
        shutil.copy(os.path.join(src, f), os.path.join(dst, f))
meta = {'id': sid, 'breaks_property': prop, 'needs_to_manifest': needs,
        'origin': 'independent sub-agent given only the property text and a scratch worktree',
        'confirmed': 'patch applied in scratch worktree /tmp/seed/vw: pytest 196 passed; demo.py exits non-zero with the patch and 0 without (tools/try_seed.sh)',
        'checks_that_report_a_violation': [c for c in caught.split(',') if c]}
json.dump(meta, open(os.path.join(dst, 'meta.json'), 'w'), indent=1)
print('kept', sid)
