#!/venv/bin/python
"""A kept seeded change applied on top of a random stack of kept refactorings: the checks recorded for that seed must
still report a violation.  usage: run_seed_on_stack.py [n] [stack]"""
import glob
import json
import os
import random
import subprocess
import sys
import tempfile
from concurrent.futures import ThreadPoolExecutor

VERIF = os.path.dirname(os.path.dirname(os.path.abspath(__file__)))


def sh(cmd, cwd=None, env=None, timeout=1500):
    return subprocess.run(cmd, shell=True, cwd=cwd, env=env, capture_output=True, text=True, timeout=timeout)


def run_one(args):
    k, stack = args
    rnd = random.Random(1000 + k)
    skip = {l.strip() for l in open(os.path.join(VERIF, 'twins', 'NO-VERDICT.txt')) if l.strip() and not l.startswith('#')}
    twins = sorted(d for d in glob.glob(os.path.join(VERIF, 'twins', '*')) if os.path.isfile(os.path.join(d, 'patch.diff')) and os.path.basename(d) not in skip)
    seeds = sorted(d for d in glob.glob(os.path.join(VERIF, 'seeded', '*')) if os.path.isfile(os.path.join(d, 'meta.json')))
    rnd.shuffle(twins)
    rnd.shuffle(seeds)
    tmp = tempfile.mkdtemp(prefix='seedstack-')
    wt = os.path.join(tmp, 'wt')
    try:
        sh(f'git -C /repo worktree add -q --detach {wt} HEAD')
        applied = []
        for d in twins:
            if len(applied) >= stack:
                break
            if sh(f'git -C {wt} apply --check {d}/patch.diff').returncode == 0:
                sh(f'git -C {wt} apply {d}/patch.diff')
                applied.append(os.path.basename(d))
        seed = None
        for d in seeds:
            meta = json.load(open(os.path.join(d, 'meta.json')))
            if not meta.get('checks_that_report_a_violation'):
                continue
            if sh(f'git -C {wt} apply --check {d}/patch.diff').returncode == 0:
                sh(f'git -C {wt} apply {d}/patch.diff')
                seed = meta
                break
        if seed is None:
            return k, applied, None, {}
        tests = sh('/venv/bin/python -m pytest -q -p no:cacheprovider 2>&1 | tail -1', cwd=wt).stdout.strip()
        env = dict(os.environ, VERIF_REPO=wt, VERIF_SERIAL='1', VERIF_NOEVIDENCE='1')
        res = {}
        for p in seed['checks_that_report_a_violation']:
            c = sh(f'/venv/bin/python {VERIF}/check {p}', cwd=VERIF, env=env)
            res[p] = c.returncode
        return k, applied, (seed['id'], tests), res
    finally:
        sh(f'git -C /repo worktree remove --force {wt}')
        sh(f'rm -rf {tmp}')


def main():
    n = int(sys.argv[1]) if len(sys.argv) > 1 else 16
    stack = int(sys.argv[2]) if len(sys.argv) > 2 else 5
    with ThreadPoolExecutor(max_workers=8) as ex:
        results = list(ex.map(run_one, [(k, stack) for k in range(n)]))
    lines = ['# A kept seeded change on top of a stack of kept refactorings', '',
             '| run | refactorings | seed | tests | recorded checks -> exit |', '|---|---|---|---|---|']
    missed = 0
    for k, applied, seed, res in results:
        if seed is None:
            lines.append(f'| {k} | {", ".join(applied)} | (no seed applies) | | |')
            continue
        bad = [p for p, rc in res.items() if rc != 1]
        if bad:
            missed += 1
        lines.append(f'| {k} | {", ".join(applied)} | {seed[0]} | {seed[1]} | ' + ', '.join(f'{p}:{rc}' for p, rc in res.items()) + (' **MISSED**' if bad else '') + ' |')
    lines += ['', f'{len(results)} runs; {missed} with a recorded check that no longer reports the change']
    open(os.path.join(VERIF, 'seeded', 'ON-STACKS.md'), 'w').write('\n'.join(lines) + '\n')
    print(lines[-1])


if __name__ == '__main__':
    main()
