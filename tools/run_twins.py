#!/venv/bin/python
"""Applies every behaviour-preserving refactoring in /verif/twins/*/patch.diff to its own scratch worktree of /repo
HEAD and runs all checks against it: every check must stay at exit 0.  Writes /verif/twins/RESULTS.md."""
import glob
import os
import subprocess
import sys
import tempfile
from concurrent.futures import ThreadPoolExecutor

VERIF = os.path.dirname(os.path.dirname(os.path.abspath(__file__)))
ALL = ['C01', 'C02', 'C03', 'C04', 'C05', 'C06', 'C07', 'C08', 'C09', 'C10', 'C11', 'C12', 'C13', 'C14', 'C15', 'C17', 'C18', 'C19', 'C20']


def sh(cmd, cwd=None, env=None, timeout=1200):
    return subprocess.run(cmd, shell=True, cwd=cwd, env=env, capture_output=True, text=True, timeout=timeout)


def run_one(d):
    tid = os.path.basename(d)
    tmp = tempfile.mkdtemp(prefix='twinrun-')
    wt = os.path.join(tmp, 'wt')
    try:
        if sh(f'git -C /repo worktree add -q --detach {wt} HEAD').returncode:
            return tid, 'worktree error', {}
        if sh(f'git -C {wt} apply {d}/patch.diff').returncode:
            return tid, 'patch does not apply to the current HEAD', {}
        tests = sh('/venv/bin/python -m pytest -q -p no:cacheprovider 2>&1 | tail -1', cwd=wt).stdout.strip()
        env = dict(os.environ, VERIF_REPO=wt, VERIF_SERIAL='1', VERIF_NOEVIDENCE='1')
        res = {}
        for p in ALL:
            c = sh(f'/venv/bin/python {VERIF}/check {p}', cwd=VERIF, env=env)
            if c.returncode != 0:
                res[p] = (c.returncode, [l.strip()[:200] for l in c.stdout.splitlines() if l.startswith(('VIOLATION', 'ANALYSIS', '   mosromgr'))][:4])
        return tid, tests, res
    finally:
        sh(f'git -C /repo worktree remove --force {wt}')
        sh(f'rm -rf {tmp}')


def main():
    only = sys.argv[1:]
    dirs = sorted(d for d in glob.glob(os.path.join(VERIF, 'twins', '*')) if os.path.isdir(d) and (not only or any(o in d for o in only)))
    with ThreadPoolExecutor(max_workers=10) as ex:
        results = list(ex.map(run_one, dirs))
    head = ['# Behaviour-preserving refactorings re-run against the current checks', '',
            '| twin | tests | checks not at exit 0 |', '|---|---|---|']
    rows = {}
    path = os.path.join(VERIF, 'twins', 'RESULTS.md')
    if only and os.path.exists(path):
        # a partial re-run replaces the rows of the twins it ran and keeps the others
        for l in open(path):
            if l.startswith('| ') and not l.startswith('| twin') and not l.startswith('|---'):
                rows[l.split('|')[1].strip()] = l.rstrip('\n')
    for tid, tests, res in results:
        rows[tid] = f'| {tid} | {tests} | ' + ('; '.join(f'{p}: exit {rc} {msgs}' for p, (rc, msgs) in res.items()) or 'none') + ' |'
    skip = {l.strip() for l in open(os.path.join(VERIF, 'twins', 'NO-VERDICT.txt')) if l.strip() and not l.startswith('#')}
    quiet = sum(1 for r in rows.values() if r.rstrip().endswith('| none |'))
    nov = sum(1 for t, r in rows.items() if t in skip and not r.rstrip().endswith('| none |') and 'exit 1' not in r)
    lines = head + [rows[t] for t in sorted(rows)]
    lines += ['', f'{len(rows)} refactorings; {quiet} leave all 19 checks at exit 0; {nov} are listed in NO-VERDICT.txt and end with exit 2 (no verdict, DESIGN §17); '
                  f'{len(rows) - quiet - nov} others not at exit 0']
    open(os.path.join(VERIF, 'twins', 'RESULTS.md'), 'w').write('\n'.join(lines) + '\n')
    print(lines[-1])


if __name__ == '__main__':
    main()
