#!/venv/bin/python
"""Regenerates /verif/MANIFEST.json from the registered property checks (mosverif/props.py)."""
import json
import os
import sys

HERE = os.path.dirname(os.path.dirname(os.path.abspath(__file__)))
sys.path.insert(0, HERE)
from mosverif import props  # noqa: E402

LEVELS = {
    'C01': ('necessary structural clauses of the story-order property decided for all inputs by index-typestate abstract interpretation of every story-level merge (index domain/freshness/advance, conservation, per-ID enumeration, search-helper conformance); the exact resulting ID sequence is NOT decided', '§4 C01'),
    'C02': ('the same clauses for item-level merges plus STORY-SCOPED lookups; exact resulting item sequences are NOT decided', '§4 C02'),
    'C03': ('FRAME / WILDCARD / ID-FALLBACK / STORY-SCOPED / META-SCHEMA decided on every merge path: necessary conditions of "no collateral edits"; deep equality of untouched elements is NOT decided', '§4 C03'),
    'C04': ('payload taint/purity, completeness of payload loops and the storyBody splice (typestate on the deep copy) decided on every merge path; deep equality of arbitrary payload subtrees is NOT decided (deepcopy/ElementTree trusted)', '§4 C04'),
    'C05': ('whole property within the effect model: no exceptional exit (explicit, modelled implicit, may-alias remove) reachable after the first mutation of the running order, for every list length and fault position (loops iterated to a fix-point)', '§4 C05'),
    'C06': ('whole property within the effect model: every lookup miss / duplicate is raised or warned exactly once with the documented category, success paths are silent, accessors enumerate per ID', '§4 C06'),
    'C12': ('nullness/partial-operation analysis with exception flow over all 24 merges (schema-shaped messages) and over classification (all well-formed documents): only library exceptions can escape; the collection loop, interpreted over messages that merge or raise MosMergeError, ends only normally or with MosMergeError', '§4 C12, §11'),
    'C07': ('the completion guard is interpreted for all 24 message classes (marker present => MosCompletedMergeError with an empty effect trace; completed is True after roDelete and False after any other merge), the refusal is re-evaluated on a message about whose document nothing is assumed; the record holds a deep copy of the received roDelete; plus who-may-call / single-writer / direct-child rules; the ElementTree write/parse round trip itself is NOT decided', '§4 C07'),
    'C08': ('classification is interpreted over every presence combination of children: only MosInvalidXML/UnknownMosFileType escape, no Element truthiness, decision reads only the message element; both dispatch tables equal the documented tables; sibling constructors agree', '§4 C08'),
    'C09': ('MosCollection.merge is interpreted (strict and non-strict) over a symbolic reader list of unknown length with messages that merge or raise MosMergeError: fold shape, fresh objects, application through +=, strict re-raise, exactly one MosMergeNonStrictWarning per failure; the folded list is the one the constructors sorted; equality of serialisations is NOT decided', '§4 C09'),
    'C10': ('premises of permutation invariance: what reaches cls(...) in all three constructors (interpreted) is sorted() over all readers, numeric message-id ordering in both classes, no re-ordering before the fold; equality of merged output is NOT decided', '§4 C10, §18'),
    'C11': ('the acceptance predicate of __init__/_validate is interpreted on exact representative reader lists (finite truth table incl. a roReplace dimension, two orders and a third with equal types apart) and compared with the specification, incl. the exception type of every rejection and the empty list; no assert statement exists in the package (python -O)', '§4 C11, §18'),
    'C14': ('ENVELOPE CLAUSE ONLY: root-level writers, untouched envelope children, single serializer, every merge behind the completion guard, all constructors parse with the default parser. The round-trip clause (well-formed output that reads back identically, special characters intact) is NOT decided by this technique', '§4 C14'),
    'C15': ('no builtin exception escapes any public read accessor for any presence combination of optional tags (exception-flow interpretation), listings are order-preserving pipelines, getters read their documented tags; value equality with the document is NOT decided', '§4 C15'),
    'C17': ('script/body pipelines are order preserving, body maps p/item correctly, and the 21-row decision table of the script filter over the finite string abstraction equals the specification; Unicode behaviour of str.strip is NOT decided', '§4 C17'),
    'C18': ('sibling agreement of the three sources (interpreted constructors and outcome sets), reader/restore pairing, reader fields, fresh objects, exhaustive S3 paging over a symbolic paginator; ElementTree bytes/str equivalence and boto3 are trusted', '§4 C18, §18'),
    'C19': ('the CLI entry points interpreted for every argument combination: containment of the interpreter-computed may-raise set in the per-file loop, per-file report protocol, inspect() escape-freedom, flag/path plumbing, exact output value, exit-status mapping; argparse and console bytes are NOT decided', '§4 C19, §18'),
    'C20': ('provenance of every exposed id equals the MOS role table for all 41 accessors (per-ID enumeration, no blank-ID substitution), inspect() cannot raise and mentions every source; printed text / value equality is NOT decided', '§4 C20'),
    'C13': ('taint analysis on element provenance: no message-owned subtree reaches the running order without deepcopy, no merge mutates the message or captures running-order nodes; the collection re-reads each message', '§4 C13'),
}

NOT_APPLICABLE = {
    'C16': 'arithmetic identities over runtime durations and datetimes (sums, prefix sums, start+offset): deciding them needs evaluation of the arithmetic, concretely or symbolically; the only non-brittle static clause (None-propagation) is covered under C15',
}

PENDING = 'check not built yet (work in progress); see DESIGN.md §4'


def main():
    ids = [json.loads(l)['id'] for l in open(os.path.join(HERE, 'properties.jsonl'))]
    checks = []
    na = []
    for pid in ids:
        if pid in props.PROPS and pid in LEVELS:
            text, ref = LEVELS[pid]
            checks.append({
                'property_id': pid,
                'quick_cmd': f'/venv/bin/python /verif/check {pid} --tier quick',
                'thorough_cmd': f'/venv/bin/python /verif/check {pid} --tier thorough',
                'evidence_file': f'/verif/evidence/{pid}.json',
                'replay_cmd_template': f'/venv/bin/python /verif/check {pid} --replay {{path}}',
                'engine': 'mosverif',
                'level_claimed': {'category': 'other', 'text': text, 'design_ref': 'DESIGN.md ' + ref},
                'level_note': 'trusted base: CPython ast parser; the abstract model of ElementTree/copy/warnings primitives (DESIGN §3); '
                              'the MOS DTD presence/cardinality and role tables in mosverif/schema.py. Value-level equalities are not decided.',
                'technique': props.TECHNIQUE.get(pid, 'static analysis: abstract interpretation over the AST'),
            })
        else:
            na.append({'property_id': pid, 'reason': NOT_APPLICABLE.get(pid, PENDING)})
    m = {
        'version': 1,
        'setup_cmd': 'true',
        'hooks': {'guard': 'BBC_MOSROMGR_VERIF',
                  'enable': 'none needed: the checks read /repo sources with ast; no instrumentation exists',
                  'baseline_off_cmd': 'cd /repo && /venv/bin/python -m pytest -q -p no:cacheprovider --timeout=900',
                  'source_commits': [], 'add_only': True},
        'engines': [{'name': 'mosverif', 'path': '/verif/mosverif', 'serves_properties': [c['property_id'] for c in checks],
                     'kind_free_text': 'repository-specific static analyser: program model + path-sensitive abstract interpreter over finite '
                                       'domains (nullness, provenance, index typestate) + rule engines mergeflow/nullflow/shape/tables/predtable'}],
        'checks': checks,
        'notes': 'Static analysis only (ast; nothing from /repo is imported or executed). Exit 0 = all obligations discharged; '
                 '1 = VIOLATION lines; 2 = ANALYSIS-ERROR (unrecognised construct / vanished anchor / floor not met). '
                 'Genuine defects found on the pinned tree were repaired with fix: commits (see known_findings.json).',
        'not_applicable': na,
    }
    with open(os.path.join(HERE, 'MANIFEST.json'), 'w') as f:
        json.dump(m, f, indent=1)
    print(f'{len(checks)} checks, {len(na)} not applicable/pending')


if __name__ == '__main__':
    main()
