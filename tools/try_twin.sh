#!/bin/bash
# usage: try_twin.sh <dir with patch.diff> [props...] : behaviour-preserving refactor must leave every check at exit 0
D=$1; shift
W=/tmp/seed/vw2
[ -d $W ] || git -C /repo worktree add -q --detach $W HEAD
git -C $W checkout -q -- . && git -C $W clean -fdq
git -C $W apply --check $D/patch.diff || { echo "PATCH DOES NOT APPLY"; exit 9; }
git -C $W apply $D/patch.diff
PROPS="$@"
[ -z "$PROPS" ] && PROPS="C01 C02 C03 C04 C05 C06 C07 C08 C09 C10 C11 C12 C13 C14 C15 C17 C18 C19 C20"
cd /verif
bad=0
for p in $PROPS; do
  out=$(VERIF_REPO=$W VERIF_NOEVIDENCE=1 timeout 300 ./check $p 2>&1); rc=$?
  if [ $rc -ne 0 ]; then bad=1; echo "== $p exit $rc"; echo "$out" | grep -E "^(VIOLATION|ANALYSIS|   mosromgr|   [A-Za-z_]+\.)" | cut -c1-260 | head -8; echo "$out" | grep -A1 "^VIOLATION" | grep -v "^VIOLATION\|^--" | cut -c1-260 | head -6; fi
done
[ $bad -eq 0 ] && echo "all quiet"
git -C $W checkout -q -- . && git -C $W clean -fdq
