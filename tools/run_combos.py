#!/venv/bin/python
"""Stacks several of the kept behaviour-preserving refactorings (twins/*/patch.diff) on one scratch worktree of /repo
HEAD - as many of a random order as apply cleanly, up to a limit - and runs every check against the result: all must
stay at exit 0.  usage: run_combos.py [n_combos] [max_stack].  Writes /verif/twins/COMBOS.md."""
import glob
import os
import random
import subprocess
import sys
import tempfile
from concurrent.futures import ThreadPoolExecutor

VERIF = os.path.dirname(os.path.dirname(os.path.abspath(__file__)))
ALL = ['C01', 'C02', 'C03', 'C04', 'C05', 'C06', 'C07', 'C08', 'C09', 'C10', 'C11', 'C12', 'C13', 'C14', 'C15', 'C17', 'C18', 'C19', 'C20']


def sh(cmd, cwd=None, env=None, timeout=1500):
    return subprocess.run(cmd, shell=True, cwd=cwd, env=env, capture_output=True, text=True, timeout=timeout)


def run_one(args):
    k, max_stack = args
    skip = {l.strip() for l in open(os.path.join(VERIF, 'twins', 'NO-VERDICT.txt')) if l.strip() and not l.startswith('#')}
    twins = sorted(d for d in glob.glob(os.path.join(VERIF, 'twins', '*')) if os.path.isfile(os.path.join(d, 'patch.diff')) and os.path.basename(d) not in skip)
    random.Random(k).shuffle(twins)
    tmp = tempfile.mkdtemp(prefix='comborun-')
    wt = os.path.join(tmp, 'wt')
    applied = []
    try:
        if sh(f'git -C /repo worktree add -q --detach {wt} HEAD').returncode:
            return k, [], 'worktree error', {}
        for d in twins:
            if len(applied) >= max_stack:
                break
            if sh(f'git -C {wt} apply --check {d}/patch.diff').returncode == 0:
                sh(f'git -C {wt} apply {d}/patch.diff')
                applied.append(os.path.basename(d))
        tests = sh('/venv/bin/python -m pytest -q -p no:cacheprovider 2>&1 | tail -1', cwd=wt).stdout.strip()
        env = dict(os.environ, VERIF_REPO=wt, VERIF_SERIAL='1', VERIF_NOEVIDENCE='1')
        res = {}
        for p in ALL:
            c = sh(f'/venv/bin/python {VERIF}/check {p}', cwd=VERIF, env=env)
            if c.returncode != 0:
                res[p] = (c.returncode, [l.strip()[:220] for l in c.stdout.splitlines() if l.startswith(('ANALYSIS', '   mosromgr'))][:3])
        return k, applied, tests, res
    finally:
        sh(f'git -C /repo worktree remove --force {wt}')
        sh(f'rm -rf {tmp}')


def main():
    n = int(sys.argv[1]) if len(sys.argv) > 1 else 10
    max_stack = int(sys.argv[2]) if len(sys.argv) > 2 else 6
    with ThreadPoolExecutor(max_workers=8) as ex:
        results = list(ex.map(run_one, [(k, max_stack) for k in range(n)]))
    lines = ['# Stacked refactorings', '', f'{n} random stacks of up to {max_stack} kept refactorings each (those that apply cleanly on top of each other).', '',
             '| stack | refactorings applied | tests | checks not at exit 0 |', '|---|---|---|---|']
    noisy = 0
    for k, applied, tests, res in results:
        if res:
            noisy += 1
        lines.append(f'| {k} | {", ".join(applied)} | {tests} | ' + ('; '.join(f'{p}: exit {rc} {msgs}' for p, (rc, msgs) in res.items()) or 'none') + ' |')
    lines += ['', f'{len(results)} stacks; {len(results) - noisy} leave all 19 checks at exit 0']
    open(os.path.join(VERIF, 'twins', 'COMBOS.md'), 'w').write('\n'.join(lines) + '\n')
    print(lines[-1])


if __name__ == '__main__':
    main()
