#!/bin/bash
# usage: try_seed.sh <dir with patch.diff and demo.py> [props...]
# Confirms the seeded change independently (tests pass, demo fails with / passes without) in the scratch worktree
# /tmp/seed/vw and runs the checks against that worktree.
D=$1; shift
W=${W:-/tmp/seed/vw}
git -C $W checkout -q -- . && git -C $W clean -fdq
git -C $W apply --check $D/patch.diff || { echo "PATCH DOES NOT APPLY"; exit 9; }
( cd $W && PYTHONPATH=$W /venv/bin/python $D/demo.py >/dev/null 2>&1 ); echo "demo without change: exit $?"
git -C $W apply $D/patch.diff
( cd $W && /venv/bin/python -m pytest -q -p no:cacheprovider 2>&1 | tail -1 )
( cd $W && PYTHONPATH=$W /venv/bin/python $D/demo.py >/dev/null 2>&1 ); echo "demo with change: exit $?"
PROPS="$@"
[ -z "$PROPS" ] && PROPS="C01 C02 C03 C04 C05 C06 C07 C08 C09 C10 C11 C12 C13 C14 C15 C17 C18 C19 C20"
cd /verif
for p in $PROPS; do
  out=$(VERIF_NOEVIDENCE=1 VERIF_REPO=$W timeout 300 ./check $p 2>&1); rc=$?
  if [ $rc -ne 0 ]; then echo "== $p exit $rc"; echo "$out" | grep -E "^(VIOLATION|ANALYSIS|   mosromgr)" | cut -c1-230 | head -8; fi
done
git -C /verif checkout -q -- evidence 2>/dev/null
git -C $W checkout -q -- . && git -C $W clean -fdq
