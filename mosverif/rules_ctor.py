"""ctorflow: the three MosCollection constructors interpreted over a symbolic list of sources (DESIGN §4 C10/C18).

`MosReader.from_file/from_string/from_s3` are summarised ("returns a fresh reader built from exactly these arguments,
or None"), `MosCollection(...)` itself is intercepted.  Decided from what reaches the constructor call, whatever the
spelling (comprehensions, loops, helper classmethods, lambdas):

  SORTED-CTORS  the reader list handed to cls(...) is the result of sorted() without key/reverse, not sliced, reversed
                or de-duplicated afterwards
  CTOR-ARGS     every reader comes from the MosReader constructor of the same name, called with one element of the
                input (and the bucket for S3); None results are dropped and nothing else is; allow_incomplete is the
                caller's value
  COLL-SIBLINGS the three constructors have the same observable pipeline
"""
from __future__ import annotations

from typing import Dict, List

from .domains import ClsV, Const, ExtV, ListE, NoneV, NumV, ObjE, Ref, State, StrV, TupleV, Unknown
from .engine import Engine
from .front import AnalysisError, Program, norm
from .harness import base_state
from .interp import Raise

PAIRS = {'from_files': 'from_file', 'from_strings': 'from_string', 'from_s3': 'from_s3'}
ALLOW = Const('<allow_incomplete marker>')


class CtorFlow(Engine):
    def __init__(self, prog, name):
        super().__init__(prog, entry=f'MosCollection.{name}', summaries={})
        self.name = name
        self.calls: List[dict] = []          # what reached MosCollection(...)
        self.made: List[tuple] = []          # (reader ctor, argument descriptions)
        self.reorders: List[tuple] = []
        self.dropped: List[str] = []
        self.listing: List[dict] = []

    # MosReader.from_X(...) -> a fresh reader or None
    def call_function(self, fi, args, kwargs, st, node, self_val=None):
        if fi.cls is not None and fi.cls.name == 'MosReader' and fi.name.startswith('from_') and not isinstance(self_val, Ref):
            descr = tuple(self.describe(a, st) for a in args) + tuple(f'{k}={self.describe(v, st)}' for k, v in sorted(kwargs.items()))
            self.made.append((fi.name, descr))
            s2 = st.copy()
            sym = st.new(ObjE(fi.cls.qualname, (('%args', TupleV(tuple(args) + tuple(kwargs.values()))), ('%ctor', Const(fi.name)),
                                                  ('_message_id', NumV()), ('_mos_type', Unknown('class')), ('_ro_id', StrV(('ro id',))))))
            return [(Ref('obj', sym), st), (NoneV(('MosReader.' + fi.name, 'message type without a reader')), s2)]
        if fi.qualname.endswith('utils.s3:get_mos_files') or fi.short == 'get_mos_files':
            # the listing is decided by ALL-PAGES (C18); here it yields the symbolic sources
            self.listing.append({k: self.describe(v, st) for k, v in list(zip([a.arg for a in fi.node.args.args], args)) + list(kwargs.items())})
            return [(Ref('list', st.mon['ref:ctorsrc']), st)]
        return super().call_function(fi, args, kwargs, st, node, self_val=self_val)

    def getattr_(self, o, name, st, node):
        if isinstance(o, Ref) and o.kind == 'obj':
            e = st.get(o.sym)
            if e.get('%ctor') is not None and e.get(name) is None and self.prog.classes[e.cls].find(name) is None:
                return [(Unknown(f'attribute {name} of a summarised reader'), st)]
        return super().getattr_(o, name, st, node)

    def instantiate(self, c, args, kwargs, st, node):
        if isinstance(c, ClsV) and c.qual == self.prog.cls('MosCollection').qualname:
            readers = args[0] if args else kwargs.get('mos_readers')
            rec = {'allow': kwargs.get('allow_incomplete', args[1] if len(args) > 1 else None), 'extra': sorted(k for k in kwargs if k not in ('mos_readers', 'allow_incomplete')),
                   'readers': None, 'line': getattr(node, 'lineno', 0)}
            if isinstance(readers, Ref) and readers.kind == 'list':
                le: ListE = st.get(readers.sym)
                tmpl = []
                for t in le.items:
                    if isinstance(t, Ref) and t.kind == 'obj' and st.get(t.sym).get('%ctor') is not None:
                        o = st.get(t.sym)
                        tmpl.append(('reader', o.get('%ctor').v, tuple(self.describe(a, st) for a in o.get('%args').items)))
                    else:
                        tmpl.append(('other', self.describe(t, st)))
                rec['readers'] = {'kind': le.kind, 'stages': tuple(le.stages), 'templates': tmpl, 'hi': le.hi}
            else:
                rec['readers'] = {'kind': 'not a list', 'stages': (), 'templates': [('other', self.describe(readers, st) if readers is not None else 'missing')], 'hi': None}
            self.calls.append(rec)
            return [(ExtV('collection'), st)]
        return super().instantiate(c, args, kwargs, st, node)

    def on_reorder(self, st, node, list=None, how='', kwargs=None):
        self.reorders.append((how, tuple(sorted(kwargs or {}))))

    def on_dict_store(self, st, node, dict=None, key=None, value=None):
        if isinstance(value, Ref) and value.kind == 'obj' and st.get(value.sym).get('%ctor') is not None:
            self.dropped.append(f'a mapping keyed by {self.describe(key, st)} (readers with an equal key collapse into one)')

    def on_comp_skip(self, st, node, gen=None):
        import ast
        for n in ast.walk(gen.target):
            if isinstance(n, ast.Name):
                v = st.frame.env.get(n.id)
                if isinstance(v, Ref) and v.kind == 'obj' and st.get(v.sym).get('%ctor') is not None:
                    self.dropped.append(norm(gen.ifs[0]) if gen.ifs else '?')

    def run(self):
        prog = self.prog
        fi = prog.cls('MosCollection').find(self.name)
        if fi is None:
            raise AnalysisError(f'anchor vanished: MosCollection.{self.name}')
        st = base_state(self)
        params = [a.arg for a in fi.node.args.args][1:] + [a.arg for a in fi.node.args.kwonlyargs]
        if 'allow_incomplete' not in params:
            raise AnalysisError(f'MosCollection.{self.name} has no allow_incomplete parameter')
        src = st.new(ListE('accum', 0, None, items=(StrV(('arg', 'source')),), owned=((),), stages=('SOURCES',)))
        kwargs: Dict[str, object] = {'allow_incomplete': ALLOW}
        positional = [p for p in params if p != 'allow_incomplete']
        st.mon['ref:ctorsrc'] = src
        if self.name == 'from_s3':
            for p in positional:
                kwargs[p] = StrV(('arg', 'bucket' if 'bucket' in p else p))
        else:
            kwargs[positional[0]] = Ref('list', src)
        self.results = []
        for v, s in self.call_function(fi, [], kwargs, st, None, self_val=ClsV(prog.cls('MosCollection').qualname)):
            self.results.append(('raise ' + v.exc.cls) if isinstance(v, Raise) else self.describe(v, s))
        return self


def ctor_rules(res, prog: Program):
    res.rules['SORTED-CTORS'] = ('each MosCollection.from_* (interpreted over a symbolic list of sources) hands to cls(...) the result of sorted(<readers>) '
                                 'with no key/reverse, not sliced, reversed or de-duplicated')
    res.rules['CTOR-ARGS'] = ('each MosCollection.from_* builds every reader with the MosReader constructor of the same name from one element of its input, '
                              'drops exactly the None results, and forwards allow_incomplete unchanged')
    res.rules['COLL-SIBLINGS'] = 'the three MosCollection constructors have the same pipeline (reader per input, drop None, sorted, cls(..., allow_incomplete=...)) and differ only in the reader constructor'
    shapes = {}
    for name, rctor in PAIRS.items():
        fl = CtorFlow(prog, name).run()
        fi = prog.cls('MosCollection').find(name)
        if not fl.calls:
            res.error(f'SORTED-CTORS: the interpretation of MosCollection.{name} never reached cls(...) (idiom not recognised): results {fl.results}')
            continue
        ok_sorted, d_sorted, ok_args, d_args, ok_allow, d_allow = True, '', True, '', True, ''
        seen_reader = False
        for c in fl.calls:
            r = c['readers']
            st = [s for s in r['stages'] if s in ('sorted', 'reversed', 'slice', 'set') or s.startswith(('sorted', 'reversed', 'slice', 'list(unknown)'))]
            if not st or st[-1] != 'sorted' or any(s != 'sorted' for s in st):
                ok_sorted, d_sorted = False, f'the readers passed to cls(...) went through {list(r["stages"]) or r["kind"]}: not "sorted(...) and nothing after it"'
            for t in r['templates']:
                if t[0] == 'reader':
                    seen_reader = True
                    want_args = (('arg.bucket', 'arg.source') if name == 'from_s3' else ('arg.source',))
                    got_args = tuple(a.replace("'", '') for a in t[2])
                    if t[1] != rctor:
                        ok_args, d_args = False, f'readers are built with MosReader.{t[1]}, not MosReader.{rctor}'
                    elif got_args != want_args:
                        ok_args, d_args = False, f'MosReader.{rctor} is called with {t[2]}, expected {want_args}'
                else:
                    ok_args, d_args = False, f'the list handed to cls(...) can contain {t[1]} (None results are not dropped, or something else is added)'
            if c['allow'] != ALLOW:
                ok_allow, d_allow = False, 'allow_incomplete is not forwarded unchanged'
        for how, kw in fl.reorders:
            if how == 'sorted' and any(k in ('key', 'reverse') for k in kw):
                ok_sorted, d_sorted = False, f'sorted() is called with {"/".join(kw)}=: the order is no longer ascending message id'
        if fl.dropped:
            ok_args, d_args = False, f'readers are dropped by the filter {fl.dropped[0]}'
        if name == 'from_s3':
            want = {'bucket_name': 'arg.bucket', 'prefix': 'arg.prefix', 'suffix': 'arg.suffix'}
            if not fl.listing:
                ok_args, d_args = False, 'the keys are not obtained from s3.get_mos_files'
            for kw in fl.listing:
                got = {k: v.replace("'", '') for k, v in kw.items()}
                bad = [k for k, v in want.items() if v not in got.get(k, '')]
                if bad:
                    ok_args, d_args = False, f's3.get_mos_files does not receive the caller\'s {"/".join(bad)}: {kw}'
        if not seen_reader and not fl.dropped:
            res.error(f'CTOR-ARGS: no reader reaches cls(...) in MosCollection.{name} (idiom not recognised)')
        for ctor, args in fl.made:
            if ctor != rctor:
                ok_args, d_args = False, f'readers are built with MosReader.{ctor}, not MosReader.{rctor}'
            want = ["StrV(arg.bucket)", "StrV(arg.source)"] if name == 'from_s3' else ["StrV(arg.source)"]
        res.add('SORTED-CTORS', fi.short, 'cls(sorted([...readers...]), ...)', ok_sorted, d_sorted, fi.file, fl.calls[0]['line'] or fi.node.lineno)
        res.add('CTOR-ARGS', fi.short, f'readers built with MosReader.{rctor}', ok_args, d_args, fi.file, fi.node.lineno)
        res.add('CTOR-ARGS', fi.short, 'allow_incomplete=allow_incomplete', ok_allow, d_allow, fi.file, fl.calls[0]['line'] or fi.node.lineno)
        shapes[name] = (ok_sorted, ok_args, ok_allow, tuple(sorted({t[0] for c in fl.calls for t in c['readers']['templates']})),
                        tuple(sorted({(how, kw) for how, kw in fl.reorders})))
    vals = set(shapes.values())
    ok = len(vals) == 1 and len(shapes) == 3
    res.add('COLL-SIBLINGS', 'MosCollection.from_*', 'same pipeline in from_files / from_strings / from_s3', ok, '' if ok else f'the constructors differ: {shapes}')
