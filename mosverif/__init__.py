"""mosverif - repository-specific static analysis for bbc/mosromgr (see /verif/DESIGN.md)."""
