"""Program model: modules, classes, MRO, functions, imports - built from the
sources under <repo>/mosromgr with CPython's ``ast`` on every run.  Nothing is
imported or executed."""
from __future__ import annotations

import ast
import hashlib
import os
from dataclasses import dataclass, field
from typing import Dict, List, Optional, Tuple


class AnalysisError(Exception):
    """The analyser met something it does not understand (exit status 2)."""


@dataclass
class FuncInfo:
    qualname: str            # module:Class.name or module:name
    name: str
    node: ast.FunctionDef
    module: 'ModuleInfo'
    cls: Optional['ClassInfo']
    kind: str                # function | method | property | classmethod | staticmethod
    setter: Optional[ast.FunctionDef] = None
    cached: bool = False
    decorators: tuple = ()

    @property
    def short(self) -> str:
        return (self.cls.name + '.' if self.cls else '') + self.name

    @property
    def file(self) -> str:
        return self.module.relpath

    def __hash__(self):
        return hash(self.qualname)

    def __eq__(self, other):
        return isinstance(other, FuncInfo) and other.qualname == self.qualname


@dataclass
class ClassInfo:
    name: str
    qualname: str
    node: ast.ClassDef
    module: 'ModuleInfo'
    base_exprs: List[ast.expr]
    bases: List['ClassInfo'] = field(default_factory=list)
    ext_bases: List[str] = field(default_factory=list)   # names of bases outside the package
    methods: Dict[str, FuncInfo] = field(default_factory=dict)
    attrs: Dict[str, ast.expr] = field(default_factory=dict)
    decorators: List[str] = field(default_factory=list)
    mro: List['ClassInfo'] = field(default_factory=list)

    def __hash__(self):
        return hash(self.qualname)

    def __eq__(self, other):
        return isinstance(other, ClassInfo) and other.qualname == self.qualname

    def find(self, name: str) -> Optional[FuncInfo]:
        for c in self.mro:
            if name in c.methods:
                return c.methods[name]
        return None

    def find_attr(self, name: str):
        for c in self.mro:
            if name in c.attrs:
                return c, c.attrs[name]
        return None

    def is_subclass_of(self, other: 'ClassInfo') -> bool:
        return other in self.mro

    def ext_ancestors(self) -> List[str]:
        out = []
        for c in self.mro:
            out.extend(c.ext_bases)
        return out


@dataclass
class ModuleInfo:
    name: str                 # dotted, e.g. mosromgr.utils.xml
    path: str
    relpath: str
    tree: ast.Module
    source: str
    digest: str
    imports: Dict[str, Tuple[str, Optional[str]]] = field(default_factory=dict)   # local -> (module, symbol|None)
    functions: Dict[str, FuncInfo] = field(default_factory=dict)
    classes: Dict[str, ClassInfo] = field(default_factory=dict)
    globals: Dict[str, ast.expr] = field(default_factory=dict)
    is_pkg: bool = False


def _decorator_names(node) -> List[str]:
    out = []
    for d in node.decorator_list:
        if isinstance(d, ast.Call):
            d = d.func
        try:
            out.append(ast.unparse(d))
        except Exception:  # pragma: no cover
            out.append('?')
    return out


class _CounterLoops(ast.NodeTransformer):
    """Semantics-preserving normalisation of the manual loop counter

        i = <int>                      i = <int>
        for x in xs:          ==>      for i, x in enumerate(xs, start=<int> + 1):
            i += 1                         BODY
            BODY

    (and the trailing form `BODY; i += 1` == enumerate(xs, start=<int>) when BODY has no `continue`), applied only when
    i is not otherwise stored in the loop, the loop has no else-clause and nothing between the assignment and the
    loop mentions i.  The interpreter then sees the counter as what it is: the position of x."""

    def _rewrite(self, body):
        out = list(body)
        for k, s in enumerate(out):
            if not (isinstance(s, ast.For) and not s.orelse and s.body):
                continue
            first, last = s.body[0], s.body[-1]

            def inc(n):
                return isinstance(n, ast.AugAssign) and isinstance(n.op, ast.Add) and isinstance(n.target, ast.Name) \
                    and isinstance(n.value, ast.Constant) and n.value.value == 1
            for pos, stmt in ((0, first), (-1, last)):
                if not inc(stmt):
                    continue
                name = stmt.target.id
                rest = s.body[1:] if pos == 0 else s.body[:-1]
                if not rest:
                    continue
                stores = [n for r in rest for n in ast.walk(r) if isinstance(n, ast.Name) and n.id == name and not isinstance(n.ctx, ast.Load)]
                if stores or any(isinstance(n, ast.Name) and n.id == name for n in ast.walk(s.target)) \
                        or any(isinstance(n, ast.Name) and n.id == name for n in ast.walk(s.iter)):
                    continue
                if pos == -1 and any(isinstance(n, ast.Continue) for r in rest for n in ast.walk(r)):
                    continue
                # the initialisation: the closest preceding statement `name = <int>`, nothing in between mentions name
                init = None
                for j in range(k - 1, -1, -1):
                    p = out[j]
                    if isinstance(p, ast.Assign) and len(p.targets) == 1 and isinstance(p.targets[0], ast.Name) and p.targets[0].id == name \
                            and isinstance(p.value, (ast.Constant, ast.UnaryOp)):
                        try:
                            v = ast.literal_eval(p.value)
                        except Exception:
                            v = None
                        if isinstance(v, int) and not isinstance(v, bool):
                            init = v
                        break
                    if any(isinstance(n, ast.Name) and n.id == name for n in ast.walk(p)):
                        break
                if init is None:
                    continue
                start = init + 1 if pos == 0 else init
                call = ast.Call(func=ast.Name(id='enumerate', ctx=ast.Load()), args=[s.iter],
                                keywords=[ast.keyword(arg='start', value=ast.Constant(value=start))] if start else [])
                target = ast.Tuple(elts=[ast.Name(id=name, ctx=ast.Store()), s.target], ctx=ast.Store())
                new = ast.For(target=target, iter=call, body=rest, orelse=[], type_comment=None)
                ast.copy_location(new, s)
                ast.copy_location(call, s.iter)
                ast.copy_location(target, s.target)
                ast.fix_missing_locations(new)
                out[k] = new
                break
        return out

    def generic_visit(self, node):
        super().generic_visit(node)
        for field in ('body', 'orelse', 'finalbody'):
            b = getattr(node, field, None)
            if isinstance(b, list) and b and isinstance(b[0], ast.stmt):
                setattr(node, field, self._rewrite(b))
        return node


class Program:
    def __init__(self, repo: str, package: str = 'mosromgr'):
        self.repo = os.path.abspath(repo)
        self.package = package
        self.modules: Dict[str, ModuleInfo] = {}
        self.classes: Dict[str, ClassInfo] = {}      # by simple name (unique in this package) and qualname
        self.functions: Dict[str, FuncInfo] = {}     # by qualname
        self._load()

    # ------------------------------------------------------------------ load
    def _load(self):
        root = os.path.join(self.repo, self.package)
        if not os.path.isdir(root):
            raise AnalysisError(f'package directory not found: {root}')
        for dirpath, dirnames, filenames in os.walk(root):
            dirnames[:] = sorted(d for d in dirnames if d != '__pycache__')
            for fn in sorted(filenames):
                if not fn.endswith('.py'):
                    continue
                path = os.path.join(dirpath, fn)
                rel = os.path.relpath(path, self.repo)
                parts = rel[:-3].split(os.sep)
                is_pkg = parts[-1] == '__init__'
                if is_pkg:
                    parts = parts[:-1]
                name = '.'.join(parts)
                with open(path, 'rb') as f:
                    raw = f.read()
                try:
                    src = raw.decode('utf-8')
                    tree = _CounterLoops().visit(ast.parse(src, filename=path))
                except (SyntaxError, UnicodeDecodeError) as e:
                    raise AnalysisError(f'cannot parse {rel}: {e}')
                self.modules[name] = ModuleInfo(
                    name=name, path=path, relpath=rel, tree=tree, source=src,
                    digest=hashlib.sha256(raw).hexdigest()[:16], is_pkg=is_pkg)
        for m in self.modules.values():
            self._index_module(m)
        for m in self.modules.values():
            for c in m.classes.values():
                self._resolve_bases(c)
        for m in self.modules.values():
            for c in m.classes.values():
                c.mro = self._linearise(c, ())

    def _abs_module(self, m: ModuleInfo, level: int, module: Optional[str]) -> str:
        if level == 0:
            return module or ''
        parts = m.name.split('.')
        if not m.is_pkg:
            parts = parts[:-1]
        if level > 1:
            parts = parts[:-(level - 1)]
        if module:
            parts = parts + module.split('.')
        return '.'.join(parts)

    def _index_module(self, m: ModuleInfo):
        for node in m.tree.body:
            if isinstance(node, ast.Import):
                for a in node.names:
                    local = a.asname or a.name.split('.')[0]
                    target = a.name if a.asname else a.name.split('.')[0]
                    m.imports[local] = (target, None)
            elif isinstance(node, ast.ImportFrom):
                mod = self._abs_module(m, node.level, node.module)
                for a in node.names:
                    local = a.asname or a.name
                    m.imports[local] = (mod, a.name)
            elif isinstance(node, (ast.FunctionDef, ast.AsyncFunctionDef)):
                if isinstance(node, ast.AsyncFunctionDef):
                    raise AnalysisError(f'{m.relpath}:{node.lineno}: async function not supported')
                fi = FuncInfo(f'{m.name}:{node.name}', node.name, node, m, None, 'function')
                m.functions[node.name] = fi
                self.functions[fi.qualname] = fi
            elif isinstance(node, ast.ClassDef):
                self._index_class(m, node)
            elif isinstance(node, ast.Assign):
                for t in node.targets:
                    if isinstance(t, ast.Name):
                        m.globals[t.id] = node.value
            elif isinstance(node, ast.AnnAssign) and isinstance(node.target, ast.Name) and node.value is not None:
                m.globals[node.target.id] = node.value

    def _index_class(self, m: ModuleInfo, node: ast.ClassDef):
        ci = ClassInfo(node.name, f'{m.name}:{node.name}', node, m, list(node.bases),
                       decorators=_decorator_names(node))
        if node.keywords:
            raise AnalysisError(f'{m.relpath}:{node.lineno}: class keywords/metaclass not supported')
        for b in node.body:
            if isinstance(b, ast.FunctionDef):
                decs = _decorator_names(b)
                kind = 'method'
                if 'property' in decs:
                    kind = 'property'
                elif 'classmethod' in decs:
                    kind = 'classmethod'
                elif 'staticmethod' in decs:
                    kind = 'staticmethod'
                setter = [d for d in decs if d.endswith('.setter')]
                if setter:
                    pname = setter[0].split('.')[0]
                    if pname in ci.methods:
                        ci.methods[pname].setter = b
                    continue
                cached = [d for d in decs if d in ('cached_property', 'functools.cached_property')]
                if cached:
                    kind = 'property'
                other = [d for d in decs if d not in ('property', 'classmethod', 'staticmethod', 'cached_property', 'functools.cached_property')]
                if other:
                    kind = 'opaque'          # unknown decorator: calls are treated as opaque, never guessed
                fi = FuncInfo(f'{m.name}:{node.name}.{b.name}', b.name, b, m, ci, kind)
                fi.cached = bool(cached)
                fi.decorators = decs
                ci.methods[b.name] = fi
                self.functions[fi.qualname] = fi
            elif isinstance(b, ast.AsyncFunctionDef):
                raise AnalysisError(f'{m.relpath}:{b.lineno}: async method not supported')
            elif isinstance(b, ast.Assign):
                for t in b.targets:
                    if isinstance(t, ast.Name):
                        ci.attrs[t.id] = b.value
                    elif isinstance(t, (ast.Tuple, ast.List)) and isinstance(b.value, (ast.Tuple, ast.List)) and len(t.elts) == len(b.value.elts):
                        for tn, tv in zip(t.elts, b.value.elts):       # A, B = 'a', 'b' in a class body
                            if isinstance(tn, ast.Name):
                                ci.attrs[tn.id] = tv
            elif isinstance(b, ast.AnnAssign) and isinstance(b.target, ast.Name) and b.value is not None:
                ci.attrs[b.target.id] = b.value
        m.classes[node.name] = ci
        self.classes[ci.qualname] = ci
        if node.name in self.classes and self.classes[node.name] is not ci:
            raise AnalysisError(f'duplicate class name {node.name}')
        self.classes[node.name] = ci

    def _resolve_bases(self, c: ClassInfo):
        for b in c.base_exprs:
            target = self.resolve_name_expr(c.module, b)
            if isinstance(target, ClassInfo):
                c.bases.append(target)
            else:
                c.ext_bases.append(ast.unparse(b))

    def _linearise(self, c: ClassInfo, seen) -> List[ClassInfo]:
        """C3 linearisation (Python's method resolution order), so that mixin diamonds resolve as they do at run time."""
        if c in seen:
            raise AnalysisError(f'inheritance cycle at {c.name}')
        seqs = [self._linearise(b, seen + (c,)) for b in c.bases] + [list(c.bases)]
        seqs = [list(s) for s in seqs if s]
        out = [c]
        while seqs:
            for s in seqs:
                cand = s[0]
                if not any(cand in t[1:] for t in seqs):
                    break
            else:
                raise AnalysisError(f'inconsistent method resolution order for {c.name}')
            out.append(cand)
            seqs = [[x for x in s if x is not cand] for s in seqs]
            seqs = [s for s in seqs if s]
        return out

    # -------------------------------------------------------------- resolve
    def resolve_global(self, m: ModuleInfo, name: str):
        """Resolve a module-level name to ClassInfo | FuncInfo | ('module', dotted) |
        ('global', ModuleInfo, expr) | ('external', dotted) | None."""
        if name in m.classes:
            return m.classes[name]
        if name in m.functions:
            return m.functions[name]
        if name in m.globals:
            return ('global', m, m.globals[name], name)
        if name in m.imports:
            mod, sym = m.imports[name]
            if sym is None:
                if mod in self.modules:
                    return ('module', mod)
                return ('external', mod)
            if mod in self.modules:
                tm = self.modules[mod]
                sub = f'{mod}.{sym}'
                if sub in self.modules and sym not in tm.classes and sym not in tm.functions and sym not in tm.globals:
                    return ('module', sub)
                r = self.resolve_global(tm, sym)
                if r is not None:
                    return r
                return ('external', f'{mod}.{sym}')
            sub = f'{mod}.{sym}'
            if sub in self.modules:
                return ('module', sub)
            return ('external', f'{mod}.{sym}')
        return None

    def resolve_name_expr(self, m: ModuleInfo, e: ast.expr):
        if isinstance(e, ast.Name):
            return self.resolve_global(m, e.id)
        if isinstance(e, ast.Attribute):
            base = self.resolve_name_expr(m, e.value)
            if isinstance(base, tuple) and base[0] == 'module':
                return self.resolve_global(self.modules[base[1]], e.attr)
            if isinstance(base, tuple) and base[0] == 'external':
                return ('external', base[1] + '.' + e.attr)
        return None

    # -------------------------------------------------------------- helpers
    def cls(self, name: str) -> ClassInfo:
        if name not in self.classes:
            raise AnalysisError(f'anchor vanished: class {name} not found in {self.package}')
        return self.classes[name]

    def func(self, qual: str) -> FuncInfo:
        """qual like 'MosFile._classify' or 'utils.xml:find_child'"""
        if ':' in qual:
            mod, name = qual.split(':')
            mod = f'{self.package}.{mod}' if not mod.startswith(self.package) else mod
            q = f'{mod}:{name}'
            if q not in self.functions:
                raise AnalysisError(f'anchor vanished: function {qual}')
            return self.functions[q]
        cname, fname = qual.split('.')
        c = self.cls(cname)
        f = c.find(fname)
        if f is None:
            raise AnalysisError(f'anchor vanished: method {qual}')
        return f

    def subclasses(self, base: ClassInfo) -> List[ClassInfo]:
        seen, out = set(), []
        for c in self.classes.values():
            if c.qualname in seen:
                continue
            seen.add(c.qualname)
            if base in c.mro:
                out.append(c)
        out.sort(key=lambda c: (c.module.relpath, c.node.lineno))
        return out

    def digests(self) -> Dict[str, str]:
        return {m.relpath: m.digest for m in self.modules.values()}

    def all_functions(self) -> List[FuncInfo]:
        return sorted(self.functions.values(), key=lambda f: (f.module.relpath, f.node.lineno))


def norm(node) -> str:
    """Normalised source text of an AST node (position/formatting independent)."""
    try:
        return ' '.join(ast.unparse(node).split())
    except Exception:  # pragma: no cover
        return f'<{type(node).__name__}>'
