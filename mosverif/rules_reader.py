"""readerflow: MosReader interpreted over symbolic sources (DESIGN §4 C18/C09/C13: RESTORE-PAIR, READER-FIELDS, FRESH-READ).

For X in from_file / from_string / from_s3 the constructor `MosReader.X(<symbolic arguments>)` is run by the abstract
interpreter with `MosFile.X` summarised ("returns a symbolic message whose message_id, ro_id and class are opaque
tokens"), the real `MosReader.__init__` and properties are interpreted, and `mos_object` is evaluated twice.  Decided
from the values, whatever the spelling (tuple, namedtuple, helper classmethod, getattr on the class):

  RESTORE-PAIR   each evaluation of mos_object calls <class of the classified message>.X with exactly the values that
                 MosReader.X was given (the same abstract values, in order: nothing re-encoded, stripped or swapped)
  READER-FIELDS  message_id / ro_id / mos_type of the reader are the message's message_id / ro_id / class, unchanged
  FRESH-READ     every evaluation of mos_object restores again (no cached object)
"""
from __future__ import annotations

from typing import Dict, List

from .domains import ClsV, Const, ExtV, NumV, ObjE, Ref, State, StrV, TupleV, Unknown, Val
from .engine import Engine
from .front import AnalysisError, Program
from .harness import base_state
from .interp import Raise

MSGCLS = 'reader:message-class'


class ReaderFlow(Engine):
    def __init__(self, prog, ctor: str):
        super().__init__(prog, entry=f'MosReader.{ctor}', summaries={})
        self.ctor = ctor
        self.made: List[tuple] = []
        self.restores: List[tuple] = []

    def call_function(self, fi, args, kwargs, st, node, self_val=None):
        if fi.cls is not None and fi.cls.name == 'MosFile' and fi.name in ('from_file', 'from_string', 'from_s3') and not isinstance(self_val, Ref):
            params = [a.arg for a in fi.node.args.args][1:]
            bound = dict(zip(params, args))
            bound.update(kwargs)
            self.made.append((fi.name, tuple(bound.get(p) for p in params)))
            sym = st.new(ObjE(fi.cls.qualname, (('%symbolic', Const(True)),)))
            return [(Ref('obj', sym), st)]
        return super().call_function(fi, args, kwargs, st, node, self_val=self_val)

    def getattr_(self, o: Val, name: str, st: State, node):
        if isinstance(o, Ref) and o.kind == 'obj' and st.get(o.sym).get('%symbolic') is not None:
            if name == 'message_id':
                return [(NumV(('msg', 'message_id')), st)]
            if name == 'ro_id':
                return [(StrV(('msg', 'ro_id')), st)]
            if name == '__class__':
                return [(ExtV(MSGCLS), st)]
            return [(Unknown(f'attribute {name} of the classified message'), st)]
        return super().getattr_(o, name, st, node)

    def opaque_ext(self, name, args, kwargs, st, node):
        if name.startswith(MSGCLS + '.'):
            self.restores.append((name[len(MSGCLS) + 1:], tuple(args), tuple(sorted(kwargs.items()))))
            st.effect()          # building an object: the getter is not a pure re-evaluation
            sym = st.new(ObjE(self.prog.cls('MosFile').qualname, (('%restored', Const(len(self.restores))), ('%symbolic', Const(True)))))
            return [(Ref('obj', sym), st)]
        if name in ('collections.namedtuple', 'namedtuple', 'typing.NamedTuple'):
            return [(ExtV('namedtuple-class'), st)]
        if name in ('namedtuple-class', 'result:collections.namedtuple', 'result:namedtuple'):
            return [(TupleV(tuple(args) + tuple(v for _, v in kwargs.items())), st)]       # a plain record: fields in call order
        if name in ('functools.partial', 'partial'):
            raise AnalysisError('functools.partial is not modelled')
        return super().opaque_ext(name, args, kwargs, st, node)

    def run(self):
        prog = self.prog
        rcls = prog.cls('MosReader')
        fi = rcls.find(self.ctor)
        if fi is None:
            raise AnalysisError(f'anchor vanished: MosReader.{self.ctor}')
        params = [a.arg for a in fi.node.args.args][1:]
        st = base_state(self)
        self.given = tuple(StrV(('arg', p)) for p in params)
        self.out = []
        for v, s in self.call_function(fi, [], dict(zip(params, self.given)), st, None, self_val=ClsV(rcls.qualname)):
            if isinstance(v, Raise):
                self.out.append({'raise': v.exc.cls + ': ' + v.exc.msg})
                continue
            if not (isinstance(v, Ref) and v.kind == 'obj' and st_cls(s, v) == rcls.qualname):
                self.out.append({'notreader': self.describe(v, s)})
                continue
            rec: Dict[str, object] = {}
            for prop in ('message_id', 'ro_id', 'mos_type'):
                vals = []
                for pv, s2 in self.getattr_(v, prop, s.copy(), None):
                    vals.append(pv if not isinstance(pv, Raise) else ('raise', pv.exc.cls))
                rec[prop] = vals
            # mos_object twice on the same reader
            seq = []
            cur = [s.copy()]
            for k in range(2):
                nxt = []
                for s1 in cur:
                    before = len(self.restores)
                    for ov, s2 in self.getattr_(v, 'mos_object', s1, None):
                        seq.append((k, 'raise ' + ov.exc.cls if isinstance(ov, Raise) else self.describe(ov, s2), list(self.restores[before:]),
                                    s2.get(ov.sym).get('%restored').v if isinstance(ov, Ref) and ov.kind == 'obj' and s2.get(ov.sym).get('%restored') is not None else None))
                        nxt.append(s2)
                cur = nxt
            rec['restores'] = seq
            self.out.append(rec)
        return self


def st_cls(st, v):
    try:
        return st.get(v.sym).cls
    except Exception:
        return None


def reader_rules(res, prog: Program):
    res.rules['RESTORE-PAIR'] = ('MosReader.from_X, interpreted: every evaluation of mos_object calls <class of the classified message>.from_X with exactly '
                                 'the values MosReader.from_X received, in order (nothing re-encoded, stripped, swapped)')
    res.rules['READER-FIELDS'] = "the reader's message_id / ro_id / mos_type are the classified message's message_id / ro_id / class, unchanged"
    res.rules['FRESH-READ'] = 'every evaluation of MosReader.mos_object restores the message again (no cached object, nothing stored on the reader)'
    rcls = prog.cls('MosReader')
    for x in ('from_file', 'from_string', 'from_s3'):
        fl = ReaderFlow(prog, x).run()
        fi = rcls.find(x)
        recs = [r for r in fl.out if 'restores' in r]
        if not recs or not fl.made:
            res.error(f'RESTORE-PAIR: the interpretation of MosReader.{x} produced no reader / never called MosFile.{x} ({fl.out[:2]})')
            continue
        ok, detail = True, ''
        for ctor, args in fl.made:
            if ctor != x:
                ok, detail = False, f'the message is classified with MosFile.{ctor}, not MosFile.{x}'
            elif tuple(args) != fl.given:
                ok, detail = False, f'MosFile.{x} receives {[fl.describe(a, None) if False else repr(a) for a in args]}, the caller gave {[repr(a) for a in fl.given]}'
        fresh_ok, fresh_detail = True, ''
        for r in recs:
            per_eval: Dict[int, list] = {}
            for k, what, calls, tag in r['restores']:
                per_eval.setdefault(k, []).append((what, calls, tag))
            for k in (0, 1):
                evs = per_eval.get(k, [])
                if not evs:
                    ok, detail = False, 'mos_object has no normal outcome'
                for what, calls, tag in evs:
                    if what.startswith('raise'):
                        ok, detail = False, f'mos_object raises {what[6:]}'
                        continue
                    if len(calls) != 1:
                        if k == 1 and not calls:
                            fresh_ok, fresh_detail = False, 'the second evaluation of mos_object does not restore again: the message object is cached on the reader'
                        else:
                            ok, detail = False, f'one evaluation of mos_object performs {len(calls)} restore calls'
                        continue
                    name, args, kw = calls[0]
                    if name != x:
                        ok, detail = False, f'mos_object restores with <class>.{name}: not the {x} constructor of the classified class'
                    elif tuple(args) != fl.given or kw:
                        ok, detail = False, f'mos_object restores with the arguments {[repr(a) for a in args]}{dict(kw) if kw else ""}: not exactly what MosReader.{x} was given {[repr(a) for a in fl.given]}'
                    if tag is None:
                        ok, detail = False, 'mos_object does not return the restored object'
            tags = [t for _, _, _, t in r['restores'] if t is not None]
            if len(tags) >= 2 and len(set(tags)) < len(tags):
                fresh_ok, fresh_detail = False, 'two evaluations of mos_object return the same object'
        res.add('RESTORE-PAIR', fi.short, f'mos_object == <class>.{x}(*<the arguments of MosReader.{x}>)', ok, detail, fi.file, fi.node.lineno)
        res.add('FRESH-READ', fi.short, 'mos_object restores on every access', fresh_ok, fresh_detail, fi.file, fi.node.lineno)
        want = {'message_id': NumV(('msg', 'message_id')), 'ro_id': StrV(('msg', 'ro_id')), 'mos_type': ExtV(MSGCLS)}
        for prop, w in want.items():
            got = [v for r in recs for v in r[prop]]
            okp = bool(got) and all(v == w for v in got)
            res.add('READER-FIELDS', f'MosReader.{prop}', f'{prop} of a reader built by {x}', okp,
                    '' if okp else f'MosReader.{prop} is {[repr(v) for v in got][:3]}, the message has {w!r}', fi.file, fi.node.lineno)
