"""cliflow: the command-line entry points interpreted over symbolic arguments (DESIGN §4 C19).

`CLI.detect_or_inspect`, `CLI.do_merge` and `CLI.__call__` are run by the abstract interpreter for every combination of
given / missing command-line arguments.  The library below the CLI is summarised:

  MosFile.from_file / from_s3   -> a fresh symbolic message object, or one of the exceptions the interpreted
                                   classification can raise (the may-raise set computed by nullflow, plus OSError for files)
  s3.get_mos_files              -> the symbolic list of keys (C18 decides the listing itself)
  MosCollection.from_files/s3   -> a symbolic collection, or InvalidMosCollection
  <collection>.merge, str(), open(), file.write, print, sys.stderr.write  -> recorded

Decided from the recorded effects, independent of how the loops / helpers are spelt:
  LOOP-CONTAIN  no exception of a per-file constructor leaves detect_or_inspect; the per-file loop is never left early;
                files are visited in argument order; every constructed message is reported by detect_file under its own
                name and inspected iff the command is `inspect`
  FLAG-PLUMB    allow_incomplete / strict reach the library as --incomplete / not --non-strict; bucket, prefix, suffix reach it unchanged
  OUTPUT-EXACT  -o receives exactly str(collection) through open(outfile, 'w'); stdout receives the collection itself
  EXIT-MAP      InvalidMosCollection -> message on stderr and status 2; success -> None; __call__ maps any exception to stderr + 2
"""
from __future__ import annotations

import ast
import itertools
from typing import Dict, List

from .domains import ClsV, Const, ExtV, ListE, NoneV, NumV, ObjE, Ref, State, StrV, TupleV, Unknown, Val
from .engine import Engine
from .front import AnalysisError, Program, norm
from .harness import base_state
from .interp import Raise

ARGS = 'cli:args'
MC = 'cli:collection'
FILEOBJ = 'file'


class CLIFlow(Engine):
    def __init__(self, prog, scenario: dict, raises: Dict[str, set]):
        super().__init__(prog, entry='CLI ' + scenario['name'], summaries={})
        self.sc = scenario
        self.raises = raises
        self.v: List[tuple] = []            # (construct, detail)
        self.colls: List[dict] = []
        self.listing: List[dict] = []
        self.merges: List[dict] = []
        self.opens: List[tuple] = []
        self.writes: List[str] = []
        self.prints: List[tuple] = []
        self.stderr = 0
        self.seen: Dict[str, int] = {}

    def count(self, k):
        self.seen[k] = self.seen.get(k, 0) + 1

    def bad(self, construct, detail):
        if (construct, detail) not in self.v:
            self.v.append((construct, detail))

    # ---- symbolic argparse namespace
    def getattr_(self, o: Val, name: str, st: State, node):
        if isinstance(o, ExtV) and o.name == ARGS:
            if name in self.sc['args']:
                v = self.sc['args'][name]
                if v == 'SOURCES':
                    return [(Ref('list', st.mon['ref:clisrc']), st)]
                return [(v, st)]
            if name == 'func':
                return [(ExtV(ARGS + '.func'), st)]
            return [(NoneV(('argument not given', name)), st)]
        if isinstance(o, Ref) and o.kind == 'obj' and st.get(o.sym).get('%symbolic') is not None:
            if name == 'completed':
                s2 = st.copy()
                return [(Const(True), st), (Const(False), s2)]
            if name == '__class__':
                return [(ExtV('cli:message-class'), st)]
            if name == 'inspect':
                return [(ExtV('cli:inspect:' + str(o.sym)), st)]
            return [(Unknown('attribute of a symbolic message'), st)]
        if isinstance(o, ExtV) and o.name == 'cli:message-class' and name == '__name__':
            return [(StrV(('class name',)), st)]
        return super().getattr_(o, name, st, node)

    def setattr_(self, o, name, val, st, node):
        if isinstance(o, ExtV) and o.name == ARGS:
            return [(NoneV(), st)]
        return super().setattr_(o, name, val, st, node)

    # ---- summaries of the library
    def call_function(self, fi, args, kwargs, st, node, self_val=None):
        cname = fi.cls.name if fi.cls is not None else ''
        if cname == 'MosFile' and fi.name in ('from_file', 'from_s3', 'from_string') and not isinstance(self_val, Ref):
            self.count('construct')
            params = [a.arg for a in fi.node.args.args][1:]
            bound = dict(zip(params, args))
            bound.update(kwargs)
            src = bound.get(params[-1]) if params else None
            if fi.name == 'from_s3':
                b = bound.get(params[0])
                if not (isinstance(b, StrV) and b.origin == ('arg', 'bucket_name')):
                    self.bad('FLAG-PLUMB|bucket', f'MosFile.from_s3 receives {self.describe(b, st) if b is not None else "no"} bucket, not --bucket-name')
            outs = []
            for exc in sorted(self.raises.get(fi.name, ())):
                s2 = st.copy()
                outs.append((self.exc(exc, s2, node, 'cli:per-file constructor', implicit=False), s2))
            prev = st.mon.get('cli:cur')
            self.close_file(st, node)
            sym = st.new(ObjE(fi.cls.qualname, (('%src', src if src is not None else NoneV()), ('%symbolic', Const(True)))))
            st.mon['cli:cur'] = ('made', self.describe(src, st) if src is not None else '?')
            st.mon['ref:cliobj'] = sym
            for _, s2 in outs:
                self.close_file(s2, node)
            return [(Ref('obj', sym), st)] + outs
        if fi.short == 'CLI.detect_file' or fi.name == 'detect_file':
            self.count('detect')
            params = [a.arg for a in fi.node.args.args][1:]
            bound = dict(zip(params, args))
            bound.update(kwargs)
            mo, fn = bound.get(params[0]), bound.get(params[1]) if len(params) > 1 else None
            cur = st.mon.get('cli:cur')
            if not (isinstance(mo, Ref) and mo.kind == 'obj' and mo.sym == st.mon.get('ref:cliobj')) or cur is None or cur[0] != 'made':
                self.bad('LOOP-CONTAIN|detect', 'detect_file is called for something other than the message just constructed (or twice)')
            elif fn is None or self.describe(fn, st) != cur[1]:
                self.bad('LOOP-CONTAIN|detect', f'detect_file reports the message under {self.describe(fn, st) if fn is not None else "no name"}, it was read from {cur[1]}')
            else:
                st.mon['cli:cur'] = ('detected', cur[1])
            return super().call_function(fi, args, kwargs, st, node, self_val=self_val)
        if fi.short == 'get_mos_files' or fi.qualname.endswith(':get_mos_files'):
            names = [a.arg for a in fi.node.args.args]
            self.listing.append({k: v for k, v in list(zip(names, args)) + list(kwargs.items())})
            return [(Ref('list', st.mon['ref:clisrc']), st)]
        if cname == 'MosCollection' and fi.name.startswith('from_') and not isinstance(self_val, Ref):
            self.count('collection')
            names = [a.arg for a in fi.node.args.args][1:]
            rec = {'ctor': fi.name}
            rec.update({k: v for k, v in list(zip(names, args)) + list(kwargs.items())})
            for v in list(args) + list(kwargs.values()):
                if isinstance(v, Ref) and v.kind == 'list':
                    rec['%stages'] = tuple(st.get(v.sym).stages)
                    break
            self.colls.append(rec)
            s2 = st.copy()
            return [(ExtV(MC), st), (self.exc('InvalidMosCollection', s2, node, 'cli:invalid collection', implicit=False), s2)]
        return super().call_function(fi, args, kwargs, st, node, self_val=self_val)

    def opaque_ext(self, name, args, kwargs, st, node):
        if name.startswith('cli:inspect:'):
            self.count('inspect')
            cur = st.mon.get('cli:cur')
            if cur is None or cur[0] != 'detected' or str(st.mon.get('ref:cliobj')) != name.split(':')[-1]:
                self.bad('LOOP-CONTAIN|detect', 'inspect() is called before detect_file reported the message (or for another message)')
            else:
                st.mon['cli:cur'] = ('inspected', cur[1])
            return [(NoneV(), st)]
        if name.endswith('.parse_args'):
            return [(ExtV(ARGS), st)]
        if name == MC + '.merge':
            self.merges.append({'args': list(args), **kwargs})
            return [(NoneV(), st)]
        if name == ARGS + '.func':
            s2 = st.copy()
            return [(Unknown('status of the sub-command'), st), (self.exc('Exception', s2, node, 'cli:sub-command failure', implicit=False), s2)]
        if name == FILEOBJ + '.write':
            self.writes.append(repr(args[0]) if args else 'nothing')
            if not (args and isinstance(args[0], StrV) and args[0].origin and args[0].origin[0] == 'str' and MC in str(args[0].origin)):
                self.bad('OUTPUT-EXACT|write', f'the output file receives {self.describe(args[0], st) if args else "nothing"}, not str(collection)')
            st.mon['cli:written'] = (st.mon.get('cli:written') or 0) + 1
            return [(NumV(), st)]
        if name == 'sys.stderr.write':
            self.stderr += 1
            st.mon['cli:stderr'] = True
            return [(NumV(), st)]
        if name in ('sys.stdout.write',):
            self.prints.append(('stdout.write', tuple(repr(a) for a in args)))
            if self.sc.get('expect_stdout'):
                self.bad('OUTPUT-EXACT|print', 'stdout is written with sys.stdout.write instead of print(collection)')
            return [(NumV(), st)]
        return super().opaque_ext(name, args, kwargs, st, node)

    def on_open(self, st, node, args=(), kwargs=None):
        kwargs = kwargs or {}
        path = args[0] if args else kwargs.get('file')
        mode = args[1] if len(args) > 1 else kwargs.get('mode', Const('r'))
        self.opens.append((repr(path), repr(mode), tuple(sorted(kwargs))))
        if isinstance(path, StrV) and path.origin == ('arg', 'outfile'):
            if not (isinstance(mode, Const) and mode.v in ('w', 'wt')):
                self.bad('OUTPUT-EXACT|open', f'the -o file is opened with mode {self.describe(mode, st)}: not (over)written as text')
            extra = {k: v for k, v in kwargs.items() if k not in ('file', 'mode')}
            enc = extra.pop('encoding', None)
            if enc is not None and not (isinstance(enc, Const) and str(enc.v).lower().replace('-', '') in ('utf8',)):
                self.bad('OUTPUT-EXACT|open', f'the -o file is opened with encoding={self.describe(enc, st)}: characters of the running order may not survive')
            if extra:
                self.bad('OUTPUT-EXACT|open', f'the -o file is opened with {sorted(extra)}: the bytes written differ from str(collection)')

    def on_print(self, st, node, args=(), kwargs=None):
        kwargs = kwargs or {}
        if any(isinstance(a, ExtV) and a.name == MC or (isinstance(a, StrV) and a.origin and MC in str(a.origin)) for a in args):
            self.prints.append(('print', tuple(repr(a) for a in args), tuple(sorted(kwargs))))
            st.mon['cli:printed'] = (st.mon.get('cli:printed') or 0) + 1
            if len(args) != 1 or kwargs:
                self.bad('OUTPUT-EXACT|print', f'stdout receives print({", ".join(self.describe(a, st) for a in args)}{", " + ", ".join(sorted(kwargs)) if kwargs else ""}): not exactly the merged collection')

    # ---- per-file protocol
    def close_file(self, st, node):
        cur = st.mon.get('cli:cur')
        if cur is None:
            return
        want_inspect = self.sc.get('inspect')
        if cur[0] == 'made':
            self.bad('LOOP-CONTAIN|detect', f'a message constructed from {cur[1]} is never reported by detect_file')
        elif cur[0] == 'detected' and want_inspect:
            self.bad('LOOP-CONTAIN|detect', 'inspect was requested but mo.inspect() is not called for a reported message')
        elif cur[0] == 'inspected' and not want_inspect:
            self.bad('LOOP-CONTAIN|detect', 'mo.inspect() is called although only detection was requested')
        st.mon['cli:cur'] = None

    def run_loop(self, itval, st, body, node, joiner=None):
        over_sources = False
        if isinstance(itval, Ref) and itval.kind == 'list':
            le = st.get(itval.sym)
            over_sources = itval.sym == st.mon.get('ref:clisrc') or 'CLI-SOURCES' in le.stages
            if over_sources and (not le.ordered or any(s in ('sorted', 'reversed', 'set') or s.startswith('slice') for s in le.stages)):
                self.bad('LOOP-CONTAIN|order', f'the files are visited through {list(le.stages)}: not every file in argument order')
        if over_sources:
            self.count('loop')
        exits, escapes = super().run_loop(itval, st, body, node, joiner=joiner)
        if over_sources:
            for kind, s in exits:
                self.close_file(s, node)
                if kind == 'break':
                    self.bad('LOOP-CONTAIN|contain', 'the per-file loop is left with break: the remaining files are not reported')
            for ctl, s in escapes:
                if isinstance(ctl, tuple) and ctl[0] == 'ret':
                    self.bad('LOOP-CONTAIN|contain', 'the per-file loop is left with return: the remaining files are not reported')
                elif isinstance(ctl, tuple) and ctl[0] == 'raise':
                    self.bad('LOOP-CONTAIN|contain', f'{ctl[1].cls} raised for one file leaves the per-file loop: one bad or unreadable file aborts the remaining files')
        return exits, escapes

    def loop_iter_start(self, st, depth, spec, count):
        if getattr(spec, 'listsym', None) is not None and spec.listsym == st.mon.get('ref:clisrc'):
            self.close_file(st, None)
        super().loop_iter_start(st, depth, spec, count)

    # ---- driver
    def run(self, method: str, kwargs=None):
        prog = self.prog
        cli = prog.cls('CLI')
        fi = cli.find(method)
        if fi is None:
            raise AnalysisError(f'anchor vanished: CLI.{method}')
        st = base_state(self)
        src = st.new(ListE('accum', 0, None, items=(StrV(('arg', 'source')),), owned=((),), stages=('CLI-SOURCES',)))
        st.mon['ref:clisrc'] = src
        fields = {'_args': ExtV(ARGS), '_commands': ExtV('commands'), '_config': NoneV(), '_parser': ExtV('parser')}
        osym = st.new(ObjE(cli.qualname, tuple(sorted(fields.items()))))
        self.outcomes = []
        for v, s in self.call_function(fi, [], dict(kwargs or {}), st, None, self_val=Ref('obj', osym)):
            if not isinstance(v, Raise):
                self.close_file(s, None)
            if isinstance(v, Raise):
                self.outcomes.append(('raise', v.exc.cls, v.exc.msg, bool(s.mon.get('cli:stderr')), s.mon.get('cli:written') or 0, s.mon.get('cli:printed') or 0))
            else:
                self.outcomes.append(('return', v, None, bool(s.mon.get('cli:stderr')), s.mon.get('cli:written') or 0, s.mon.get('cli:printed') or 0))
        return self


def S(name):
    return StrV(('arg', name))


def cli_flow_rules(res, prog: Program, from_file_raises, inspect_ok: bool):
    res.rules.update({
        'LOOP-CONTAIN': 'detect_or_inspect, interpreted for every combination of arguments: no exception of MosFile.from_file/from_s3 (the interpreter-computed may-raise set) '
                        'leaves it or the per-file loop, files are visited in argument order, each constructed message is reported by detect_file under its own name and inspected iff requested',
        'FLAG-PLUMB': 'allow_incomplete=--incomplete and strict = not --non-strict reach the library; bucket, prefix and suffix reach it unchanged',
        'OUTPUT-EXACT': 'the -o file is opened with (outfile, "w") and receives exactly str(collection); without -o stdout receives print(collection)',
        'EXIT-MAP': 'CLI.__call__ maps any exception to a message on stderr and status 2; do_merge returns 2 with a message on InvalidMosCollection and None on success',
    })
    cli = prog.cls('CLI')
    fi_d = cli.find('detect_or_inspect')
    fi_m = cli.find('do_merge')
    fi_c = cli.find('__call__')
    if fi_d is None or fi_m is None or fi_c is None:
        raise AnalysisError('anchor vanished: CLI.detect_or_inspect / do_merge / __call__')
    raises = {'from_file': set(from_file_raises), 'from_s3': set(from_file_raises) - {'OSError'}, 'from_string': set(from_file_raises) - {'OSError'}}
    insp_param = [a.arg for a in fi_d.node.args.args][1:]
    if not insp_param:
        raise AnalysisError('CLI.detect_or_inspect has no inspect parameter')
    arg_sets = [
        ('files', {'files': 'SOURCES'}),
        ('bucket+prefix+suffix', {'bucket_name': S('bucket_name'), 'prefix': S('prefix'), 'suffix': S('suffix')}),
        ('bucket+prefix', {'bucket_name': S('bucket_name'), 'prefix': S('prefix')}),
        ('bucket+key', {'bucket_name': S('bucket_name'), 'key': S('source')}),
        ('bucket only', {'bucket_name': S('bucket_name')}),
        ('nothing', {}),
    ]
    problems: Dict[str, List[str]] = {}
    counts = {'construct': 0, 'detect': 0, 'inspect': 0, 'loop': 0}

    def note(key, detail):
        problems.setdefault(key, [])
        if detail not in problems[key]:
            problems[key].append(detail)
    for (aname, args), inspect in itertools.product(arg_sets, (False, True)):
        fl = CLIFlow(prog, {'name': f'{"inspect" if inspect else "detect"} [{aname}]', 'args': args, 'inspect': inspect}, raises)
        fl.run('detect_or_inspect', {insp_param[0]: Const(inspect)})
        for k in counts:
            counts[k] += fl.seen.get(k, 0)
        for c, d in fl.v:
            note(c, f'{d}  [{fl.sc["name"]}]')
        for o in fl.outcomes:
            if o[0] == 'raise':
                note('LOOP-CONTAIN|contain', f'{o[1]} ({o[2]}) escapes detect_or_inspect  [{fl.sc["name"]}]')
            elif aname in ('bucket only', 'nothing'):
                if not (isinstance(o[1], Const) and o[1].v == 2 and o[3]):
                    note('EXIT-MAP|usage', f'missing arguments are not answered with a message on stderr and status 2  [{fl.sc["name"]}]')
        for k in ('bucket_name', 'prefix', 'suffix'):
            # a value given on the command line must arrive unchanged; an empty string counts as "not given", so a call
            # without the keyword is accepted as long as some path forwards it
            if k in args and fl.listing:
                if any(k in kw and not (isinstance(kw[k], StrV) and kw[k].origin == ('arg', k)) for kw in fl.listing) or not any(k in kw for kw in fl.listing):
                    note('FLAG-PLUMB|listing', f'--{k.replace("_", "-")} does not reach s3.get_mos_files unchanged  [{fl.sc["name"]}]')
        if aname.startswith('bucket+prefix') and not fl.listing:
            note('FLAG-PLUMB|listing', f'the bucket is not listed with s3.get_mos_files  [{fl.sc["name"]}]')
    for k, floor in (('construct', 4), ('detect', 4), ('inspect', 2), ('loop', 4)):
        if counts[k] < floor:
            res.error(f'LOOP-CONTAIN: the interpretation of detect_or_inspect reached "{k}" {counts[k]} times (< {floor}): idiom not recognised')
    # ---- merge
    m_sets = [('files', {'files': 'SOURCES'}), ('bucket+prefix+suffix', {'bucket_name': S('bucket_name'), 'prefix': S('prefix'), 'suffix': S('suffix')}),
              ('bucket+prefix', {'bucket_name': S('bucket_name'), 'prefix': S('prefix')}), ('nothing', {})]
    n_coll = n_merge = n_out = 0
    for (aname, args), inc, ns, out in itertools.product(m_sets, (False, True), (False, True), (False, True)):
        a = dict(args)
        a['incomplete'] = Const(inc)
        a['non_strict'] = Const(ns)
        if out:
            a['outfile'] = S('outfile')
        name = f'merge [{aname}] incomplete={inc} non_strict={ns} outfile={"given" if out else "none"}'
        fl = CLIFlow(prog, {'name': name, 'args': a, 'expect_stdout': not out}, raises)
        fl.run('do_merge')
        for c, d in fl.v:
            note(c, f'{d}  [{name}]')
        n_coll += len(fl.colls)
        n_merge += len(fl.merges)
        for c in fl.colls:
            if c.get('allow_incomplete') != Const(inc):
                note('FLAG-PLUMB|allow', f'{c["ctor"]} receives allow_incomplete={c.get("allow_incomplete")!r} when --incomplete is {inc}  [{name}]')
            for k in ('bucket_name', 'prefix', 'suffix'):
                if k in args and c['ctor'] == 'from_s3' and k in c and not (isinstance(c[k], StrV) and c[k].origin == ('arg', k)):
                    note('FLAG-PLUMB|listing', f'--{k.replace("_", "-")} does not reach MosCollection.from_s3 unchanged  [{name}]')
            touched = [x for x in c.get('%stages', ()) if x in ('sorted', 'reversed', 'slice', 'set', 'filter', 'sort', 'reverse', 'dict.values')
                       or x.startswith(('sorted', 'reversed', 'slice', 'list(unknown)'))]
            if 'files' in args and touched:
                note('FLAG-PLUMB|listing', f'the file arguments reach MosCollection.from_files only after {touched}: not the files as listed '
                                           f'(messages with equal message IDs are merged in the order given)  [{name}]')
            if 'files' in args and not (isinstance(c.get('mos_file_paths', next(iter([v for k, v in c.items() if k not in ("ctor", "allow_incomplete", "%stages")]), None)), Ref)):
                note('FLAG-PLUMB|listing', f'the file arguments do not reach MosCollection.from_files  [{name}]')
        for k in ('bucket_name', 'prefix', 'suffix'):
            s3c = [c for c in fl.colls if c['ctor'] == 'from_s3']
            if k in args and s3c and not any(k in c for c in s3c):
                note('FLAG-PLUMB|listing', f'--{k.replace("_", "-")} never reaches MosCollection.from_s3  [{name}]')
        for mg in fl.merges:
            if mg.get('strict') != Const(not ns) or mg['args']:
                note('FLAG-PLUMB|strict', f'mc.merge receives strict={mg.get("strict")!r} when --non-strict is {ns}  [{name}]')
        for o in fl.outcomes:
            if o[0] == 'raise':
                if o[1] == 'InvalidMosCollection':
                    note('EXIT-MAP|invalid', f'InvalidMosCollection escapes do_merge  [{name}]')
                elif o[1] != 'OSError':
                    note('EXIT-MAP|invalid', f'{o[1]} escapes do_merge  [{name}]')
                continue
            v = o[1]
            status2 = isinstance(v, Const) and v.v == 2
            if aname == 'nothing':
                if not (status2 and o[3]):
                    note('EXIT-MAP|usage', f'missing arguments are not answered with a message on stderr and status 2  [{name}]')
                continue
            if status2:
                if not o[3]:
                    note('EXIT-MAP|invalid', f'status 2 is returned without a message on stderr  [{name}]')
                if o[4] or o[5]:
                    note('OUTPUT-EXACT|write', f'output is produced although the collection was invalid  [{name}]')
                continue
            if not isinstance(v, NoneV):
                note('EXIT-MAP|success', f'do_merge returns {v!r} on success (status must be 0/None)  [{name}]')
            n_out += 1
            # (an empty -o value counts as "not given": that path prints instead)
            if out and (o[4], o[5]) not in ((1, 0), (0, 1)):
                note('OUTPUT-EXACT|write', f'with -o the file is written {o[4]} times and the collection printed {o[5]} times (expected exactly one write, nothing on stdout)  [{name}]')
            if not out and (o[5] != 1 or o[4]):
                note('OUTPUT-EXACT|print', f'without -o the collection is printed {o[5]} times and a file written {o[4]} times (expected exactly one print)  [{name}]')
        if aname != 'nothing' and not any(o[0] == 'return' and isinstance(o[1], Const) and o[1].v == 2 for o in fl.outcomes):
            note('EXIT-MAP|invalid', f'an invalid collection is not answered with status 2  [{name}]')
        if out and aname != 'nothing' and not any(o[0] == 'return' and o[4] == 1 and o[5] == 0 for o in fl.outcomes):
            note('OUTPUT-EXACT|write', f'with -o no path writes the collection to the file  [{name}]')
        if out and aname != 'nothing' and not any(p == repr(S('outfile')) for p, _, _ in fl.opens):
            note('OUTPUT-EXACT|open', f'the -o file is not opened at the given path  [{name}]')
    if n_coll < 12 or n_merge < 12 or n_out < 12:
        res.error(f'FLAG-PLUMB/OUTPUT-EXACT: the interpretation of do_merge reached {n_coll} collection constructors, {n_merge} merges, {n_out} successful outputs: idiom not recognised')
    # ---- __call__
    fl = CLIFlow(prog, {'name': '__call__', 'args': {}}, raises)
    fl.run('__call__', {})
    kinds = set()
    for o in fl.outcomes:
        if o[0] == 'raise':
            note('EXIT-MAP|call', f'{o[1]} escapes CLI.__call__')
        elif isinstance(o[1], Const) and o[1].v == 2:
            kinds.add('status2' if o[3] else 'status2-silent')
        else:
            kinds.add('passthrough')
    if 'status2-silent' in kinds:
        note('EXIT-MAP|call', 'a failing sub-command is mapped to status 2 without a message on stderr')
    if 'status2' not in kinds and 'status2-silent' not in kinds:
        note('EXIT-MAP|call', 'a failing sub-command is not mapped to status 2')
    if 'passthrough' not in kinds:
        note('EXIT-MAP|call', 'the status of a successful sub-command is not returned')
    # ---- obligations (names kept from the structural version)
    table = [
        ('LOOP-CONTAIN', fi_d, 'per-file constructor exceptions are contained in the loop', ['LOOP-CONTAIN|contain']),
        ('LOOP-CONTAIN', fi_d, 'files are visited in argument order', ['LOOP-CONTAIN|order']),
        ('LOOP-CONTAIN', fi_d, 'detect_file then (if inspect) mo.inspect()', ['LOOP-CONTAIN|detect']),
        ('FLAG-PLUMB', fi_m, 'allow_incomplete=self._args.incomplete', ['FLAG-PLUMB|allow']),
        ('FLAG-PLUMB', fi_m, 'mc.merge(strict=not self._args.non_strict)', ['FLAG-PLUMB|strict']),
        ('FLAG-PLUMB', fi_m, 'files / bucket / prefix / suffix reach the library unchanged', ['FLAG-PLUMB|listing', 'FLAG-PLUMB|bucket']),
        ('OUTPUT-EXACT', fi_m, 'f.write(str(mc))', ['OUTPUT-EXACT|write']),
        ('OUTPUT-EXACT', fi_m, "open(self._args.outfile, 'w')", ['OUTPUT-EXACT|open']),
        ('OUTPUT-EXACT', fi_m, 'print(mc)', ['OUTPUT-EXACT|print']),
        ('EXIT-MAP', fi_c, 'try: return self._args.func() except Exception: stderr + return 2', ['EXIT-MAP|call']),
        ('EXIT-MAP', fi_m, 'except InvalidMosCollection: stderr + return 2', ['EXIT-MAP|invalid']),
        ('EXIT-MAP', fi_m, 'success path returns None (status 0)', ['EXIT-MAP|success']),
        ('EXIT-MAP', fi_m, 'missing arguments: message on stderr and status 2', ['EXIT-MAP|usage']),
    ]
    for rule, fi, construct, keys in table:
        ds = [d for k in keys for d in problems.get(k, [])]
        res.add(rule, fi.short, construct, not ds, '' if not ds else ds[0] + (f' (+{len(ds) - 1} more)' if len(ds) > 1 else ''), fi.file, fi.node.lineno)
    res.add('LOOP-CONTAIN', 'inspect()', 'no inspect() can raise for a classifiable message (C20 INSPECT-TOTAL)', inspect_ok,
            '' if inspect_ok else 'an inspect() method has an exceptional exit: mosromgr inspect aborts on that message')
