"""Runs the engines over the repository (in parallel) and caches the results for one process."""
from __future__ import annotations

import multiprocessing as mp
import os
import time
import traceback
from typing import Dict, List

from . import schema
from .engine import Engine
from .front import AnalysisError, Program

_PROG: Dict[str, Program] = {}


def program(repo: str) -> Program:
    if repo not in _PROG:
        _PROG[repo] = Program(repo)
    return _PROG[repo]


def finding_dict(f):
    return {'rule': f.rule, 'func': f.func, 'construct': f.construct, 'detail': f.detail, 'file': f.file,
            'line': f.line, 'entry': f.entry, 'witness': f.witness, 'key': f.key}


def _merge_job(args):
    repo, cname = args[:2]
    envelope_only = len(args) > 2 and args[2]
    t0 = time.time()
    mf = None

    def partial(err):
        # definite findings made before the analysis broke down are kept (they are facts about recognised constructs)
        return {'class': cname, 'ok': False, 'error': err, 'partial': True,
                'findings': [finding_dict(f) for f in mf.findings.values()] if mf is not None else [],
                'sites': {k: sorted(v) for k, v in mf.sites.items()} if mf is not None else {}, 'outcomes': [], 'notes': {},
                'stats': {}, 'functions': [], 'summaries': {}, 'guard_tags': []}
    try:
        from .rules_merge import MergeFlow
        prog = program(repo)
        mf = MergeFlow(prog, cname, envelope_only=envelope_only)
        mf.run()
        refusal = None
        if not envelope_only and len(mf.guard_tags) == 1:
            try:
                refusal = MergeFlow(prog, cname).run_refusal(sorted(mf.guard_tags)[0])
            except AnalysisError as e:
                refusal = [{'result': 'analysis-error', 'msg': str(e)}]
        return {'class': cname, 'ok': True, 'refusal': refusal, 'findings': [finding_dict(f) for f in mf.findings.values()],
                'sites': {k: sorted(v) for k, v in mf.sites.items()}, 'outcomes': mf.outcomes,
                'notes': mf.notes, 'stats': mf.stats, 'functions': sorted(mf.functions_entered),
                'summaries': {q: s.as_dict() for q, s in mf.summaries.items()}, 'wall': time.time() - t0,
                'guard_tags': sorted(mf.guard_tags)}
    except AnalysisError as e:
        return partial(f'{cname}: {e}')
    except RecursionError:
        return partial(f'{cname}: analyser recursion limit')
    except Exception as e:  # internal error of the checker: analysis-broken, never a violation
        return partial(f'{cname}: internal error {type(e).__name__}: {e}\n' + traceback.format_exc()[-1500:])


def _null_job(args):
    repo, kind, name = args
    try:
        from . import rules_null
        prog = program(repo)
        return rules_null.run_job(prog, kind, name)
    except AnalysisError as e:
        return {'kind': kind, 'name': name, 'ok': False, 'error': f'{kind}:{name}: {e}'}
    except Exception as e:
        return {'kind': kind, 'name': name, 'ok': False, 'error': f'{kind}:{name}: internal error {type(e).__name__}: {e}\n' + traceback.format_exc()[-1500:]}


def merge_classes(prog: Program) -> List[str]:
    """Concrete MosFile-family classes that define or inherit a real merge (role table ∪ discovered)."""
    mos = prog.cls('MosFile')
    out = []
    for c in prog.subclasses(mos):
        if c.name in ('MosFile', 'ElementAction', 'RunningOrder'):
            continue
        fi = c.find('merge')
        if fi is None:
            continue
        out.append(c.name)
    return out


_CACHE: Dict[str, dict] = {}


def pool_map(fn, jobs):
    import sys
    sys.setrecursionlimit(20000)
    n = min(len(jobs), max(1, (os.cpu_count() or 2)))
    if n <= 1 or os.environ.get('VERIF_SERIAL'):
        return [fn(j) for j in jobs]
    ctx = mp.get_context('fork')
    with ctx.Pool(n) as pool:
        return pool.map(fn, jobs, chunksize=1)


def merge_results(repo: str) -> Dict[str, dict]:
    key = 'merge:' + repo
    if key not in _CACHE:
        prog = program(repo)
        names = merge_classes(prog)
        # longest first
        heavy = ['EAStoryInsert', 'StoryInsert', 'StorySend', 'ItemDelete', 'StoryDelete']
        names.sort(key=lambda n: (heavy.index(n) if n in heavy else 99))
        res = pool_map(_merge_job, [(repo, n) for n in names])
        _CACHE[key] = {r['class']: r for r in res}
    return _CACHE[key]


def envelope_results(repo: str) -> Dict[str, dict]:
    """Merge analysis with only the envelope assumed about the message (used for atomicity: C05 quantifies over
    every message that makes the merge raise, not only schema-shaped ones)."""
    key = 'envelope:' + repo
    if key not in _CACHE:
        prog = program(repo)
        names = merge_classes(prog)
        res = pool_map(_merge_job, [(repo, n, True) for n in names])
        _CACHE[key] = {r['class']: r for r in res}
    return _CACHE[key]


def null_results(repo: str, kinds=None) -> List[dict]:
    key = 'null:' + repo
    if key not in _CACHE:
        from . import rules_null
        prog = program(repo)
        jobs = [(repo, k, n) for k, n in rules_null.jobs(prog)]
        out = pool_map(_null_job, jobs)
        # the accessor analysis runs as two jobs: fold the subclass part into the main result
        base = next((r for r in out if r.get('kind') == 'accessors'), None)
        sub = next((r for r in out if r.get('kind') == 'accessors-sub'), None)
        if sub is not None:
            out = [r for r in out if r is not sub]
            if base is not None and base.get('ok') and sub.get('ok'):
                have = {(f['rule'], f['func'], f['construct']) for f in base['findings']}
                base['findings'] += [f for f in sub['findings'] if (f['rule'], f['func'], f['construct']) not in have]
                for k in ('listings', 'reads', 'parses'):
                    base.setdefault(k, {}).update(sub.get(k, {}))
                base['checked'] = sorted(set(base.get('checked', [])) | set(sub.get('checked', [])))
                base['functions'] = sorted(set(base.get('functions', [])) | set(sub.get('functions', [])))
                for k, v in sub.get('notes', {}).items():
                    base['notes'][k] = base['notes'].get(k, 0) + v
                for k, v in sub.get('sites', {}).items():
                    base['sites'][k] = sorted({tuple(x) for x in base['sites'].get(k, [])} | {tuple(x) for x in v})
                base['returns'] = base.get('returns', []) + sub.get('returns', [])
            elif base is not None and not sub.get('ok'):
                base.update({'ok': False, 'error': sub.get('error', 'accessors-sub failed')})
        _CACHE[key] = out
    res = _CACHE[key]
    if kinds:
        res = [r for r in res if r.get('kind') in kinds]
    return res


def _coll_job(args):
    repo, strict = args
    try:
        from .rules_coll import CollectionFlow
        prog = program(repo)
        cf = CollectionFlow(prog, strict).run()
        return {'strict': strict, 'ok': True, 'findings': [finding_dict(f) for f in cf.findings.values()],
                'sites': {k: sorted(v) for k, v in cf.sites.items()}, 'outcomes': cf.outcomes, 'notes': cf.notes,
                'signature': cf.signature, 'positional': cf.positional, 'functions': sorted(cf.functions_entered)}
    except AnalysisError as e:
        return {'strict': strict, 'ok': False, 'error': f'collectionflow(strict={strict}): {e}'}
    except Exception as e:
        return {'strict': strict, 'ok': False, 'error': f'collectionflow(strict={strict}): internal error {type(e).__name__}: {e}\n' + traceback.format_exc()[-1500:]}


def coll_results(repo: str):
    key = 'coll:' + repo
    if key not in _CACHE:
        _CACHE[key] = [_coll_job((repo, True)), _coll_job((repo, False))]
    return _CACHE[key]
