"""Sensitivity audit (thorough tier; DESIGN §7).

Seeded single-point faults are applied to scratch copies of the repository's
package (under tempfile.mkdtemp(), outside /repo and /verif, removed at once),
located through the program model (function + fragment inside that function),
and the property's analyser is re-run on them: a seeded fault must flip at
least one obligation to VIOLATED; a behaviour-preserving twin must leave the
verdict untouched.  The audit measures the *checker*; the property verdict in
both tiers comes only from analysing the repository's working tree.
"""
from __future__ import annotations

import ast
import multiprocessing as mp
import os
import random
import shutil
import sys
import tempfile
import time
from typing import Dict, List, Optional, Tuple

from .front import AnalysisError, Program

S = 'seed'
T = 'twin'

# (kind, name, function anchor, old fragment, new fragment, properties the variant concerns)
VARIANTS: List[Tuple[str, str, str, str, str, Tuple[str, ...]]] = [
    # ---------------------------------------------------------------- order / index typestate
    (S, 'storymove-compensation-dropped', 'StoryMove.merge', 'target_story_index -= 1', 'pass', ('C01',)),
    (S, 'storysend-off-by-one', 'StorySend.merge', 'index=story_index)', 'index=story_index + 1)', ('C01',)),
    (S, 'storyinsert-dup-advances', 'StoryInsert.merge', '                continue', '                story_index += 1\n                continue', ('C01',)),
    (S, 'storyreplace-target-kept', 'StoryReplace.merge', 'remove_node(parent=ro.base_tag, node=story)', 'pass', ('C01',)),
    (S, 'eastoryinsert-index-among-stories', 'EAStoryInsert.merge', 'story_index = len(ro.base_tag)', 'story_index = len(ro.stories)', ('C01',)),
    (S, 'move_nodes-index-before-removal', 'utils.xml:move_nodes',
     '    for node in nodes:\n        parent.remove(node)\n    index = len(parent) if target is None else list(parent).index(target)',
     '    index = len(parent) if target is None else list(parent).index(target)\n    for node in nodes:\n        parent.remove(node)', ('C01', 'C02')),
    (S, 'move_nodes-fixed-index', 'utils.xml:move_nodes', 'parent.insert(i, node)', 'parent.insert(index, node)', ('C01', 'C02')),
    (S, 'move_nodes-drops-first', 'utils.xml:move_nodes', 'enumerate(nodes, start=index)', 'enumerate(nodes[1:], start=index)', ('C01', 'C02')),
    (S, 'storyswap-same-index', 'EAStorySwap.merge', 'ro.base_tag[story2_index] = story1', 'ro.base_tag[story1_index] = story1', ('C01',)),
    (S, 'itemswap-remove-insert', 'EAItemSwap.merge', 'story[item1_index] = item2\n        story[item2_index] = item1',
     'remove_node(parent=story, node=item1)\n        insert_node(parent=story, node=item1, index=item2_index)', ('C02',)),
    (S, 'remove_node-noop', 'utils.xml:remove_node', 'parent.remove(node)', 'pass', ('C01', 'C02')),
    (S, 'eaitemdelete-keeps-item', 'EAItemDelete.merge', 'remove_node(parent=story, node=item)', 'pass', ('C02',)),
    (S, 'find_child-index-plus-one', 'utils.xml:find_child', 'return (child, i)', 'return (child, i + 1)', ('C01', 'C02')),
    (S, 'iteminsert-end-computed-on-ro', 'ItemInsert.merge', 'item_index = len(story)', 'item_index = len(ro.base_tag)', ('C02',)),
    (S, 'itemdelete-wrong-parent', 'ItemDelete.merge', "find_child(parent=story, child_tag='item', id=item.id)", "find_child(parent=ro.base_tag, child_tag='item', id=item.id)", ('C02', 'C03')),
    (S, 'eastorydelete-per-container', 'EAStoryDelete.stories',
     "Story(source, id=story_id.text)\n            for source in self.base_tag.findall('element_source')\n            for story_id in source.findall('storyID')",
     "Story(source)\n            for source in self.base_tag.findall('element_source')", ('C01', 'C06', 'C20')),
    (S, 'eaitemdelete-per-container', 'EAItemDelete.items',
     "Item(source, id=item_id.text)\n            for source in self.base_tag.findall('element_source')\n            for item_id in source.findall('itemID')",
     "Item(source)\n            for source in self.base_tag.findall('element_source')", ('C02', 'C06', 'C20')),
    # ---------------------------------------------------------------- frame / wildcard / fallback
    (S, 'find_child-none-is-wildcard', 'utils.xml:find_child', 'if id is _ANY:', 'if id is _ANY or id is None:', ('C03',)),
    (S, 'moselement-blank-falls-back', 'MosElement.id', 'if self._id is _UNSET:', 'if self._id is _UNSET or self._id is None:', ('C03', 'C20')),
    (S, 'metadata-schema-compare-dropped', 'MetaDataReplace._find_metadata_block',
     'if schema is not None and child_schema is not None and child_schema.text == schema.text:', 'if schema is not None and child_schema is not None:', ('C03',)),
    (S, 'metadata-by-tag-only', 'MetaDataReplace.merge', "if source.tag == 'mosExternalMetadata':", "if source.tag == 'mosExternalMetadata' and False:", ('C03',)),
    (S, 'storydelete-edits-text', 'StoryDelete.merge', 'remove_node(parent=ro.base_tag, node=found_node)', "found_node.text = ''", ('C03',)),
    # ---------------------------------------------------------------- payload
    (S, 'splice-fixed-index', 'StorySend._convert_story_send_to_story_tag', 'index=sb_index)', 'index=story_body_index)', ('C04',)),
    (S, 'storyitem-retag-wrong', 'StorySend._convert_story_send_to_story_tag', "item.tag = 'item'", "item.tag = 'storyitem'", ('C04',)),
    (S, 'storyreplace-skips-first-payload', 'StoryReplace.merge', 'enumerate(self.stories, start=story_index)', 'enumerate(self.stories[1:], start=story_index)', ('C04',)),
    (S, 'roreplace-not-retagged', 'RunningOrderReplace.merge', "rr.tag = 'roCreate'", 'pass', ('C04', 'C14')),
    (S, 'eaitemreplace-break', 'EAItemReplace.merge', 'insert_node(parent=story, node=copy.deepcopy(new_item.xml), index=i)',
     'insert_node(parent=story, node=copy.deepcopy(new_item.xml), index=i)\n            break', ('C04',)),
    # ---------------------------------------------------------------- atomicity
    (S, 'eastorymove-dup-check-dropped', 'EAStoryMove.merge', 'if story is target_story or story in source_stories:', 'if story is target_story:', ('C05', 'C12')),
    (S, 'eaitemmove-target-check-dropped', 'EAItemMove.merge', 'if item is target_item or item in items:', 'if item in items:', ('C05', 'C12')),
    (S, 'eastoryreplace-validates-late', 'EAStoryReplace.merge', 'remove_node(parent=ro.base_tag, node=story)',
     'remove_node(parent=ro.base_tag, node=story)\n        if len(self.stories) == 0:\n            raise MosMergeError("no stories")', ('C05',)),
    (S, 'itemreplace-remove-before-lookup', 'ItemReplace.merge', "        item, item_index = find_child(parent=story, child_tag='item', id=self.item.id)",
     "        item, item_index = find_child(parent=story, child_tag='item', id=self.item.id)\n        remove_node(parent=ro.base_tag, node=story)", ('C05', 'C03')),
    # ---------------------------------------------------------------- reporting
    (S, 'storydelete-wrong-category', 'StoryDelete.merge', 'warnings.warn(msg, StoryNotFoundWarning)', 'warnings.warn(msg, ItemNotFoundWarning)', ('C06',)),
    (S, 'eaitemdelete-silent-miss', 'EAItemDelete.merge', 'warnings.warn(msg, ItemNotFoundWarning)', 'pass', ('C06',)),
    (S, 'storydelete-returns-after-warning', 'StoryDelete.merge', 'warnings.warn(msg, StoryNotFoundWarning)', 'warnings.warn(msg, StoryNotFoundWarning)\n                return ro', ('C06',)),
    (S, 'itemdelete-warns-on-success', 'ItemDelete.merge', 'remove_node(parent=story, node=found_node)',
     'remove_node(parent=story, node=found_node)\n                warnings.warn("deleted", ItemNotFoundWarning)', ('C06',)),
    (S, 'storyinsert-dup-silent', 'StoryInsert.merge', 'warnings.warn(msg, DuplicateStoryWarning)', 'pass', ('C06',)),
    # ---------------------------------------------------------------- completion
    (S, 'marker-under-running-order', 'RunningOrderEnd.merge', "SubElement(ro.xml, 'mosromgrmeta')", "SubElement(ro.base_tag, 'mosromgrmeta')", ('C07', 'C14')),
    (S, 'guard-reads-other-literal', 'RunningOrder.__add__', "self.xml.find('mosromgrmeta') is None", "self.xml.find('mosromgrMeta') is None", ('C07',)),
    (S, 'guard-inverted-for-roreplace', 'RunningOrder.__add__', "if self.xml.find('mosromgrmeta') is None:", "if self.xml.find('mosromgrmeta') is None or isinstance(other, RunningOrder):", ('C07',)),
    (S, 'storyappend-writes-marker', 'StoryAppend.merge', 'return ro', "SubElement(ro.xml, 'mosromgrmeta')\n        return ro", ('C07', 'C14')),
    # ---------------------------------------------------------------- classification
    (S, 'classify-truthiness', 'MosFile._classify', 'if xml.find(tag) is not None:', 'if xml.find(tag):', ('C08',)),
    (S, 'ea-operation-subscript', 'ElementAction._classify', "ea.get('operation')", "ea.attrib['operation']", ('C08', 'C12')),
    (S, 'ea-table-row-swapped', 'ElementAction._classify', "('SWAP', False, True): EAItemSwap", "('SWAP', False, True): EAStorySwap", ('C08',)),
    (S, 'tag-table-wrong-class', 'MosFile._classify', "'roStoryAppend': StoryAppend", "'roStoryAppend': StoryInsert", ('C08',)),
    (S, 'from_string-parse-unguarded', 'MosFile.from_string',
     '        try:\n            xml = ElementTree.fromstring(mos_xml_string)\n        except ElementTree.ParseError as e:\n            raise MosInvalidXML(e) from e',
     '        xml = ElementTree.fromstring(mos_xml_string)', ('C08', 'C12', 'C18')),
    (S, 'classify-descendant-search', 'MosFile._classify', 'if xml.find(tag) is not None:', "if xml.find('.//' + tag) is not None:", ('C07', 'C08')),
    # ---------------------------------------------------------------- collection
    (S, 'merge-breaks-after-warning', 'MosCollection.merge', 'warnings.warn(str(e), MosMergeNonStrictWarning)', 'warnings.warn(str(e), MosMergeNonStrictWarning)\n                break', ('C09',)),
    (S, 'merge-handler-narrowed', 'MosCollection.merge', 'except MosMergeError as e:', 'except InvalidMosCollection as e:', ('C09', 'C12')),
    (S, 'merge-direct-dispatch', 'MosCollection.merge', 'self._ro += mo', 'self._ro = mo.merge(self._ro)', ('C09', 'C07')),
    (S, 'merge-strict-default-false', 'MosCollection.merge', 'strict: bool = True', 'strict: bool = False', ('C09',)),
    (S, 'mos_object-cached', 'MosReader.mos_object', 'return self._restore_fn(*self._restore_args)',
     'if getattr(self, "_mo", None) is None:\n            self._mo = self._restore_fn(*self._restore_args)\n        return self._mo', ('C09', 'C13', 'C18')),
    (S, 'from_strings-unsorted', 'MosCollection.from_strings', 'mos_readers = sorted([', 'mos_readers = list([', ('C10', 'C18')),
    (S, 'reader-lt-as-text', 'MosReader.__lt__', 'return self.message_id < other.message_id', 'return str(self.message_id) < str(other.message_id)', ('C10',)),
    (S, 'message-id-not-int', 'MosFile.message_id', "return int(self.xml.find('messageID').text)", "return self.xml.find('messageID').text", ('C10',)),
    (S, 'validate-reverses-readers', 'MosCollection._validate', 'mr for mr in self.mos_readers if mr.mos_type != RunningOrder\n        ]',
     'mr for mr in self.mos_readers if mr.mos_type != RunningOrder\n        ]\n        self._mos_readers.reverse()', ('C10',)),
    (S, 'validate-two-deletes-ok', 'MosCollection._validate', 'if len(ro_deletes) > 1 or', 'if len(ro_deletes) > 2 or', ('C11',)),
    (S, 'validate-assert-back', 'MosCollection._validate', 'if len(ro_creates) != 1:\n            raise InvalidMosCollection(f"Failed to validate MosCollection: {len(ro_creates)} roCreates found")',
     'assert len(ro_creates) == 1, "roCreates"', ('C11',)),
    (S, 'validate-empty-unguarded', 'MosCollection._validate', 'if len(self.mos_readers) == 0:', 'if False:', ('C11',)),
    (S, 'validate-incomplete-inverted', 'MosCollection._validate', 'and not allow_incomplete)', 'and allow_incomplete)', ('C11',)),
    # ---------------------------------------------------------------- sharing
    (S, 'storyappend-no-copy', 'StoryAppend.merge', 'copy.deepcopy(story.xml)', 'story.xml', ('C13',)),
    (S, 'eaitemreplace-no-copy', 'EAItemReplace.merge', 'copy.deepcopy(new_item.xml)', 'new_item.xml', ('C13',)),
    (S, 'roend-no-copy', 'RunningOrderEnd.merge', 'copy.deepcopy(self.base_tag)', 'self.base_tag', ('C13',)),
    (S, 'storysend-captures-ro-node', 'StorySend.merge', '        remove_node(parent=ro.base_tag, node=story)', '        self._replaced = story\n        remove_node(parent=ro.base_tag, node=story)', ('C13',)),
    # ---------------------------------------------------------------- accessors / script
    (S, 'offsets-add-none', 'moselements:_get_story_offsets', '            if duration is None:\n                # the offsets of the stories after this one are unknown\n                break\n', '', ('C15', 'C12')),
    (S, 'story-slug-reads-id', 'Story.__init__', "self._slug_tag = 'storySlug'", "self._slug_tag = 'storyID'", ('C15',)),
    (S, 'story-items-reversed', 'Story.items', "for item_tag in self.xml.findall('item')", "for item_tag in reversed(self.xml.findall('item'))", ('C15',)),
    (S, 'item-type-unguarded', 'Item.type', "        obj_type = self.xml.find('objType')\n        if obj_type is not None:\n            return obj_type.text", "        return self.xml.find('objType').text", ('C15',)),
    (S, 'note-filter-or', 'moselements:_is_technical_note', "if text.startswith('(') and text.endswith(')'):", "if text.startswith('(') or text.endswith(')'):", ('C17',)),
    (S, 'note-filter-no-strip', 'moselements:_is_technical_note', 'text = p.text.strip()', 'text = p.text', ('C17',)),
    (S, 'script-keeps-notes', 'Story.script', 'and not _is_technical_note(p)', 'and _is_technical_note(p) is not None', ('C17',)),
    (S, 'tag-text-none', 'moselements:_get_tag_text', "    return ''", '    return None', ('C17',)),
    (S, 'ro-body-sorted', 'RunningOrder.body', 'story.body for story in self.stories', 'story.body for story in reversed(self.stories)', ('C17',)),
    # ---------------------------------------------------------------- sources / readers / s3
    (S, 's3-break-on-empty-page', 'utils.s3:get_mos_files', '            continue', '            break', ('C18',)),
    (S, 'reader-restores-with-other-ctor', 'MosReader.from_file', 'restore_fn=mo.__class__.from_file', 'restore_fn=mo.__class__.from_string', ('C18',)),
    (S, 'reader-ro-id-from-message-id', 'MosReader.__init__', 'self._ro_id = mo.ro_id', 'self._ro_id = mo.message_id', ('C18',)),
    (S, 's3-body-stripped', 'utils.s3:get_file_contents', 'return b.read()', 'return b.read().strip()', ('C18',)),
    # ---------------------------------------------------------------- cli
    (S, 'cli-handler-narrowed', 'CLI.detect_or_inspect', 'except (MosRoMgrException, OSError) as e:', 'except MosRoMgrException as e:', ('C19',)),
    (S, 'cli-incomplete-dropped', 'CLI.do_merge', "prefix=self._args.prefix,\n                        allow_incomplete=self._args.incomplete,\n                    )\n            else",
     "prefix=self._args.prefix,\n                    )\n            else", ('C19',)),
    (S, 'cli-strict-not-negated', 'CLI.do_merge', 'strict = not self._args.non_strict', 'strict = self._args.non_strict', ('C19',)),
    (S, 'cli-output-stripped', 'CLI.do_merge', 'f.write(str(mc))', 'f.write(str(mc).strip())', ('C19',)),
    (S, 'cli-exit-status-one', 'CLI.__call__', 'return 2', 'return 1', ('C19',)),
    # ---------------------------------------------------------------- exposure / inspect
    (S, 'eaiteminsert-inspect-story-id', 'EAItemInsert.inspect', 'print("  BEFORE ITEM:", self.item.id)', 'print("  BEFORE ITEM:", self.story.id)', ('C20',)),
    (S, 'roreplace-inspect-strips-none', 'RunningOrderReplace.inspect', 'if tag.text and tag.text.strip():', 'if tag.text.strip():', ('C20', 'C19')),
    (S, 'eaitemmove-item-from-source', 'EAItemMove.item', "return Item(self.base_tag.find('element_target'))", "return Item(self.base_tag.find('element_source'))", ('C20',)),
    (S, 'storymove-target-is-first-id', 'StoryMove.target_story', 'id=stories[1].text', 'id=stories[0].text', ('C20',)),
    (S, 'itemmovemultiple-items-drop-first', 'ItemMoveMultiple.items', "findall('itemID')[:-1]", "findall('itemID')[1:]", ('C20',)),
    # ---------------------------------------------------------------- constructs added for refactoring tolerance (must still bite)
    (S, 'iteminsert-offset-form-fixed-index', 'ItemInsert.merge',
     '        for i, item in enumerate(self.items, start=item_index):\n            insert_node(parent=story, node=copy.deepcopy(item.xml), index=i)',
     '        for offset, item in enumerate(self.items):\n            insert_node(parent=story, node=copy.deepcopy(item.xml), index=item_index)', ('C02',)),
    (S, 'iteminsert-offset-form-off-by-one', 'ItemInsert.merge',
     '        for i, item in enumerate(self.items, start=item_index):\n            insert_node(parent=story, node=copy.deepcopy(item.xml), index=i)',
     '        for offset, item in enumerate(self.items):\n            insert_node(parent=story, node=copy.deepcopy(item.xml), index=item_index + offset + 1)', ('C02',)),
    (S, 'eastorymove-any-form-target-unchecked', 'EAStoryMove.merge', 'if story is target_story or story in source_stories:',
     'if any(story is seen for seen in source_stories):', ('C01', 'C05')),
    (S, 's3-comprehension-startswith', 'utils.s3:get_mos_files',
     "        for file in contents:\n            key = file['Key']\n            if key.endswith(suffix):\n                files.append(key)",
     "        files.extend([key for file in contents if (key := file['Key']).startswith(suffix)])", ('C18',)),
    (S, 's3-keyerror-escapes', 'utils.s3:get_mos_files', "            contents = page['Contents']\n        except KeyError:", "            contents = page['Contents']\n        except IndexError:", ('C18',)),
    (S, 's3-first-thousand-keys', 'utils.s3:get_mos_files', '        for file in contents:', '        for file in contents[:1000]:', ('C18',)),
    (S, 'validate-issubclass-filter', 'MosCollection._validate', 'mr for mr in self.mos_readers if mr.mos_type == RunningOrder\n',
     'mr for mr in self.mos_readers if issubclass(mr.mos_type, RunningOrder)\n', ('C11',)),
    (S, 'parse-string-memoised', 'MosFile.from_string', '    @classmethod\n    def from_string', '    @classmethod\n    @functools.lru_cache(maxsize=32)\n    def from_string', ('C07', 'C13')),
    (S, 'tag-table-undocumented-row', 'MosFile._classify', "            'roElementAction': ElementAction,\n        }", "            'roElementAction': ElementAction,\n            'roListAll': ReadyToAir,\n        }", ('C08',)),
    (S, 'tag-table-if-chain-wrong-class', 'MosFile._classify',
     "        for tag, subcls in tag_class_map.items():\n            if xml.find(tag) is not None:",
     "        if xml.find('roItemInsert') is not None:\n            return ItemReplace(xml)\n        for tag, subcls in tag_class_map.items():\n            if xml.find(tag) is not None:", ('C08',)),
    (S, 'ea-table-extra-row', 'ElementAction._classify', "('REPLACE', False, False): EAStoryReplace,", "('REPLACE', False, False): EAStoryReplace,\n            ('REPLACE', False, True): EAItemReplace,", ('C08',)),
    # ================================================================== twins (must stay silent)
    (T, 'tag-table-if-chain-prefix', 'MosFile._classify',
     "        for tag, subcls in tag_class_map.items():\n            if xml.find(tag) is not None:",
     "        if xml.find('roCreate') is not None:\n            return RunningOrder(xml)\n        for tag, subcls in tag_class_map.items():\n            if xml.find(tag) is not None:", ('C08', 'C12')),
    (T, 'ea-table-via-get-default', 'ElementAction._classify', "        operation = ea.get('operation')", "        operation = ea.get('operation', None)", ('C08',)),
    (T, 'note-index-guarded-by-caller', 'moselements:_is_technical_note', "    if text.startswith('(') and text.endswith(')'):\n        return True",
     "    if text[0] == '(' and text[-1] == ')':\n        return True", ('C17', 'C15')),       # Story.script only calls it for a non-blank paragraph
    (T, 'iteminsert-offset-form', 'ItemInsert.merge',
     '        for i, item in enumerate(self.items, start=item_index):\n            insert_node(parent=story, node=copy.deepcopy(item.xml), index=i)',
     '        for offset, item in enumerate(self.items):\n            insert_node(parent=story, node=copy.deepcopy(item.xml), index=item_index + offset)', ('C02', 'C05')),
    (T, 'eastorymove-any-form', 'EAStoryMove.merge', 'if story is target_story or story in source_stories:',
     'if any(story is seen for seen in (target_story, *source_stories)):', ('C01', 'C05', 'C12')),
    (T, 's3-comprehension-form', 'utils.s3:get_mos_files',
     "        for file in contents:\n            key = file['Key']\n            if key.endswith(suffix):\n                files.append(key)",
     "        files.extend([key for file in contents if (key := file['Key']).endswith(suffix)])", ('C18',)),
    (T, 's3-page-get-form', 'utils.s3:get_mos_files',
     "        try:\n            contents = page['Contents']\n        except KeyError:\n            # a page without keys: carry on with the next page\n            continue\n",
     "        contents = page.get('Contents', [])\n", ('C18',)),
    (T, 'validate-continue-loop-form', 'MosCollection._validate', '        if not all(mr.ro_id == ro_id for mr in self.mos_readers):',
     '        if any(mr.ro_id != ro_id for mr in self.mos_readers):', ('C11',)),
    (T, 'note-filter-any-over-table', 'moselements:_is_technical_note',
     "    if text.startswith('(') and text.endswith(')'):\n        return True\n    if text.startswith('<') and text.endswith('>'):\n        return True\n    return False",
     "    return any(text.startswith(a) and text.endswith(b) for a, b in (('(', ')'), ('<', '>')))", ('C17',)),
    (T, 'storymove-plain-subtraction', 'StoryMove.merge', 'target_story_index -= 1', 'target_story_index = target_story_index - 1', ('C01', 'C05')),
    (T, 'itemdelete-none-first', 'ItemDelete.merge', 'if story is None:', 'if None is story:', ('C02', 'C06')),
    (T, 'storyreplace-positional-args', 'StoryReplace.merge', "find_child(parent=ro.base_tag, child_tag='story', id=self.story.id)", "find_child(ro.base_tag, 'story', self.story.id)", ('C01', 'C03')),
    (T, 'storyappend-insert-at-end', 'StoryAppend.merge', 'append_node(ro.base_tag, copy.deepcopy(story.xml))', 'insert_node(parent=ro.base_tag, node=copy.deepcopy(story.xml), index=len(ro.base_tag))', ('C01', 'C13', 'C04')),
    (T, 'storydelete-branches-swapped', 'StoryDelete.merge',
     '            if found_node is not None:\n                remove_node(parent=ro.base_tag, node=found_node)\n            else:\n                msg = f"{self.__class__.__name__} error in {self.message_id} - story not found"\n                logger.warning(msg)\n                warnings.warn(msg, StoryNotFoundWarning)',
     '            if found_node is None:\n                msg = f"{self.__class__.__name__} error in {self.message_id} - story not found"\n                logger.warning(msg)\n                warnings.warn(msg, StoryNotFoundWarning)\n                continue\n            remove_node(parent=ro.base_tag, node=found_node)', ('C01', 'C06', 'C05')),
    (T, 'collection-merge-explicit-add', 'MosCollection.merge', 'self._ro += mo', 'self._ro = self._ro + mo', ('C09', 'C07')),
    (T, 'ea-operation-via-attrib-get', 'ElementAction._classify', "ea.get('operation')", "ea.attrib.get('operation')", ('C08', 'C12')),
    (T, 'validate-not-equal-spelled-out', 'MosCollection._validate', 'if len(ro_creates) != 1:', 'if not len(ro_creates) == 1:', ('C11',)),
    (T, 'note-filter-ifs-swapped', 'moselements:_is_technical_note',
     "    if text.startswith('(') and text.endswith(')'):\n        return True\n    if text.startswith('<') and text.endswith('>'):\n        return True",
     "    if text.startswith('<') and text.endswith('>'):\n        return True\n    if text.startswith('(') and text.endswith(')'):\n        return True", ('C17',)),
    (T, 'storyswap-tuple-assignment', 'EAStorySwap.merge', 'ro.base_tag[story1_index] = story2\n        ro.base_tag[story2_index] = story1',
     'ro.base_tag[story1_index], ro.base_tag[story2_index] = story2, story1', ('C01', 'C05')),
    (T, 'cli-handler-order', 'CLI.detect_or_inspect', 'except (MosRoMgrException, OSError) as e:', 'except (OSError, MosRoMgrException):', ('C19',)),
    (T, 's3-loop-variable-renamed', 'utils.s3:get_mos_files', "        for file in contents:\n            key = file['Key']", "        for obj in contents:\n            key = obj['Key']", ('C18',)),
    (T, 'iteminsert-local-alias', 'ItemInsert.merge', '        if self.item.id is None:', '        target_id = self.item.id\n        if target_id is None:', ('C02', 'C03')),
    (T, 'eastoryreplace-story-local', 'EAStoryReplace.merge', "        story, story_index = find_child(parent=ro.base_tag, child_tag='story', id=self.story.id)",
     "        wanted = self.story.id\n        story, story_index = find_child(parent=ro.base_tag, child_tag='story', id=wanted)", ('C01', 'C03', 'C05')),
    (T, 'add-guard-through-completed', 'RunningOrder.__add__', "if self.xml.find('mosromgrmeta') is None:", 'if not self.completed:', ('C07', 'C09', 'C14')),
    (T, 'running-order-completed-negated-form', 'RunningOrder.completed', "return self.xml.find('mosromgrmeta') is not None", "return not self.xml.find('mosromgrmeta') is None", ('C07',)),
    (T, 'story-items-loop-form', 'Story.items',
     "        return [\n            Item(item_tag)\n            for item_tag in self.xml.findall('item')\n        ]",
     "        items = []\n        for item_tag in self.xml.findall('item'):\n            items.append(Item(item_tag))\n        return items", ('C15',)),
]


def locate(prog: Program, anchor: str):
    fi = prog.func(anchor) if (':' in anchor or '.' in anchor) else None
    return fi


def apply_variant(src_pkg_parent: str, dst: str, variant) -> Optional[str]:
    """Copy the package to *dst* and apply the variant.  Returns None on success, else the reason it was skipped."""
    kind, name, anchor, old, new, props = variant
    pkg = os.path.join(src_pkg_parent, 'mosromgr')
    shutil.copytree(pkg, os.path.join(dst, 'mosromgr'), ignore=shutil.ignore_patterns('__pycache__'))
    if anchor == 'PATCH':
        import subprocess
        r = subprocess.run(['git', 'apply', '--include=mosromgr/*', old], cwd=dst, capture_output=True, text=True)
        if r.returncode != 0:
            return 'patch does not apply to this tree: ' + (r.stderr.strip().splitlines() or ['?'])[0][:160]
        return None
    try:
        prog = Program(dst)
        fi = locate(prog, anchor)
    except AnalysisError as e:
        return f'anchor function not found: {e}'
    with open(fi.module.path) as f:
        text = f.read()
    lines = text.splitlines(keepends=True)
    start = fi.node.lineno - 1 - len(fi.node.decorator_list)
    if fi.node.decorator_list:
        start = fi.node.decorator_list[0].lineno - 1
    end = fi.node.end_lineno
    seg = ''.join(lines[start:end])
    n = seg.count(old)
    if n == 0:
        return 'fragment not present in the anchor function'
    seg2 = seg.replace(old, new)
    out = ''.join(lines[:start]) + seg2 + ''.join(lines[end:])
    try:
        compile(out, fi.module.path, 'exec')
    except SyntaxError as e:
        return f'variant does not compile: {e}'
    with open(fi.module.path, 'w') as f:
        f.write(out)
    return None


def _run_variant(args):
    repo, prop, variant = args
    os.environ['VERIF_SERIAL'] = '1'
    sys.setrecursionlimit(20000)
    kind, name, anchor, old, new, props_ = variant
    tmp = tempfile.mkdtemp(prefix='mosverif-variant-')
    t0 = time.time()
    try:
        why = apply_variant(repo, tmp, variant)
        if why is not None:
            return {'name': name, 'kind': kind, 'status': 'skipped', 'why': why}
        from . import props
        from . import analysis
        analysis._CACHE.clear()
        analysis._PROG.clear()
        try:
            res = props.PROPS[prop](tmp, 'quick')
        except AnalysisError as e:
            return {'name': name, 'kind': kind, 'status': 'error', 'why': str(e)[:300]}
        except Exception as e:
            return {'name': name, 'kind': kind, 'status': 'error', 'why': f'{type(e).__name__}: {e}'[:300]}
        from .report import load_known
        bad = [o for o in res.obligations if o.verdict == 'VIOLATED']
        counts: Dict[str, int] = {}
        for o in res.obligations:
            counts[o.rule] = counts.get(o.rule, 0) + 1
        floor_err = [f'{r}<{fl}' for r, fl in res.floors.items() if counts.get(r, 0) < fl]
        status = 'violated' if bad else ('error' if (res.errors or floor_err) else 'clean')
        return {'name': name, 'kind': kind, 'status': status, 'why': '; '.join((res.errors + floor_err)[:2])[:300],
                'rules': sorted({o.rule for o in bad}), 'where': sorted({o.where for o in bad})[:4], 'wall': round(time.time() - t0, 2)}
    finally:
        shutil.rmtree(tmp, ignore_errors=True)


VERIF_DIR = os.path.dirname(os.path.dirname(os.path.abspath(__file__)))


def patch_variants(prop: str):
    """The kept independent changes as further variants: seeded/<id>/patch.diff that the check of *prop* is recorded to
    report (kind seed) and every behaviour-preserving refactoring in twins/ (kind twin).  The variant tuple carries the
    patch path in place of the (anchor, old, new) triple."""
    import glob
    import json
    out = []
    for d in sorted(glob.glob(os.path.join(VERIF_DIR, 'seeded', '*'))):
        mp_ = os.path.join(d, 'meta.json')
        if not os.path.isfile(mp_):
            continue
        try:
            meta = json.load(open(mp_))
        except Exception:
            continue
        if prop in meta.get('checks_that_report_a_violation', []):
            out.append((S, 'kept:' + meta['id'], 'PATCH', os.path.join(d, 'patch.diff'), '', (prop,)))
    for d in sorted(glob.glob(os.path.join(VERIF_DIR, 'twins', '*'))):
        if os.path.isfile(os.path.join(d, 'patch.diff')):
            out.append((T, 'kept:' + os.path.basename(d), 'PATCH', os.path.join(d, 'patch.diff'), '', (prop,)))
    return out


def audit(res, prop: str, repo: str, seed: int):
    """Run the variants that concern *prop*; record the outcome in the evidence (never changes the verdict)."""
    mine = [v for v in VARIANTS if prop in v[5]] + patch_variants(prop)
    rnd = random.Random(seed)
    rnd.shuffle(mine)
    jobs = [(repo, prop, v) for v in mine]
    if not jobs:
        res.extra['sensitivity'] = {'seeded': 0, 'detected': 0, 'twins': 0, 'silent': 0, 'skipped': 0}
        return
    n = min(len(jobs), os.cpu_count() or 2)
    ctx = mp.get_context('fork')
    with ctx.Pool(n) as pool:
        outs = pool.map(_run_variant, jobs, chunksize=1)
    seeds = [o for o in outs if o['kind'] == S]
    twins = [o for o in outs if o['kind'] == T]
    undetected = [o for o in seeds if o['status'] in ('clean', 'error')]
    try:
        listed = {'kept:' + l.strip() for l in open(os.path.join(VERIF_DIR, 'twins', 'NO-VERDICT.txt')) if l.strip() and not l.startswith('#')}
    except OSError:
        listed = set()
    # a refactoring listed in twins/NO-VERDICT.txt may end without a verdict (analysis error) - never with a violation
    no_verdict = [o for o in twins if o['status'] == 'error' and o['name'] in listed]
    noisy = [o for o in twins if o['status'] in ('violated', 'error') and o not in no_verdict]
    res.extra['sensitivity'] = {
        'twins_without_verdict_by_design': [o['name'] for o in no_verdict],
        'seeded': len([o for o in seeds if o['status'] != 'skipped']), 'detected': len([o for o in seeds if o['status'] == 'violated']),
        'twins': len([o for o in twins if o['status'] != 'skipped']), 'silent': len([o for o in twins if o['status'] == 'clean']),
        'skipped': len([o for o in outs if o['status'] == 'skipped']),
        'undetected_seeds': [{k: o.get(k) for k in ('name', 'status', 'why')} for o in undetected],
        'noisy_twins': [{k: o.get(k) for k in ('name', 'status', 'why', 'rules')} for o in noisy],
        'variants': [{k: o.get(k) for k in ('name', 'kind', 'status', 'rules', 'where', 'wall')} for o in sorted(outs, key=lambda o: o['name'])],
    }
    for o in sorted(outs, key=lambda o: (o['kind'], o['name'])):
        tag = {'violated': 'detected' if o['kind'] == S else 'NOISY', 'clean': 'UNDETECTED' if o['kind'] == S else 'silent',
               'error': 'ANALYSIS-BROKEN', 'skipped': 'skipped'}[o['status']]
        print(f'   audit {o["kind"]} {o["name"]}: {tag}' + (f' ({", ".join(o.get("rules", []))})' if o.get('rules') else '') +
              (f' [{o["why"]}]' if o.get('why') and o['status'] in ('error', 'skipped') else ''))
    if undetected or noisy:
        print(f'   AUDIT-WARNING property={prop} undetected seeds={[o["name"] for o in undetected]} noisy twins={[o["name"] for o in noisy]}')


def main(argv):
    """python -m mosverif.selftest [--repo DIR] : run every variant against every property it concerns."""
    repo = '/repo'
    if '--repo' in argv:
        repo = argv[argv.index('--repo') + 1]
    only = [a for a in argv if a.startswith('C')]
    jobs = [(repo, p, v) for v in VARIANTS for p in v[5] if not only or p in only]
    ctx = mp.get_context('fork')
    t0 = time.time()
    with ctx.Pool(min(len(jobs), os.cpu_count() or 2)) as pool:
        outs = pool.map(_run_variant, jobs, chunksize=1)
    bad = 0
    for (repo_, p, v), o in zip(jobs, outs):
        expect = 'violated' if v[0] == S else 'clean'
        ok = o['status'] == expect
        if not ok:
            bad += 1
        print(f'{"ok " if ok else "BAD"} {p} {v[0]} {v[1]}: {o["status"]} {o.get("rules", "")} {o.get("why", "")}')
    print(f'{len(jobs)} variant runs, {bad} unexpected, {time.time() - t0:.1f}s')
    return 1 if bad else 0


if __name__ == '__main__':
    sys.exit(main(sys.argv[1:]))
