"""s3flow: utils.s3.get_mos_files interpreted over a symbolic paginator (DESIGN §4 C18, rule ALL-PAGES).

The paginator yields an unknown number of pages; a page either has a 'Contents' list of unknown length or
raises KeyError on the subscript; every entry has a 'Key' string.  The rule is decided on the effects the
interpreter observes, not on the spelling of the loops:

  * no page loop / key loop is left early (break, return, escaping exception such as the KeyError of an empty page);
  * every key is subjected to exactly one test, `key.endswith(<the suffix parameter>)`, and is kept iff it passes
    (kept = appended to a list, or yielded by a comprehension whose result is then added to the result);
  * the paginator receives Bucket=<bucket parameter> and Prefix=<prefix parameter, '' when None>;
  * the value returned is the list the keys were collected in.
"""
from __future__ import annotations

import ast
from typing import Dict, List

from .domains import Const, ExtV, ListE, NoneV, Ref, State, StrV, TupleV, Unknown, Val
from .engine import Engine
from .front import AnalysisError, Program, norm
from .harness import base_state
from .interp import Raise

PAGES, PAGE, CONTENTS, FILE = 's3:pages', 's3:page', 's3:contents', 's3:file'
GOOD = (('endswith', 'suffix', True),)


class S3Flow(Engine):
    def __init__(self, prog, prefix_none: bool):
        super().__init__(prog, entry=f'get_mos_files(prefix={"None" if prefix_none else "<str>"})', summaries={})
        self.prefix_none = prefix_none
        self.seen: Dict[str, int] = {}
        self.paginate_args: List[dict] = []

    def count(self, what):
        self.seen[what] = self.seen.get(what, 0) + 1

    # ---- the symbolic S3 API
    def opaque_ext(self, name, args, kwargs, st: State, node):
        if name.endswith('.paginate'):
            self.count('paginate')
            self.paginate_args.append({k: v for k, v in kwargs.items()})
            return [(ExtV(PAGES), st)]
        if name == PAGE + '.get' and args and isinstance(args[0], Const) and args[0].v == 'Contents':
            s2 = st.copy()
            st.mon['s3contents'] = 'got'
            return [(ExtV(CONTENTS), st), ((args[1] if len(args) > 1 else NoneV(('no Contents',))), s2)]
        if name == FILE + '.get' and args and isinstance(args[0], Const) and args[0].v == 'Key':
            return [(self.new_key(st, node), st)]
        return super().opaque_ext(name, args, kwargs, st, node)

    def new_key(self, st: State, node):
        # keys may be produced in one stage (map/comprehension) and filtered in a later one: the record of a key starts
        # when it is first tested or kept, not when it is read
        self.count('key')
        st.serial += 1
        return StrV(('s3key',), st.serial)

    def _record_for(self, st, key):
        """the (sym, tests, kept) record of *key*; a different key closes the previous record"""
        cur = st.mon.get('s3key')
        if cur is None or st.mon.get('ref:s3cur') != key.sym:
            self.close_key(st, None)
            cur = (key.sym, (), False)
            st.mon['s3key'] = (0, (), False)
            st.mon['ref:s3cur'] = key.sym          # kept apart: string identities are not part of the state key
        return (key.sym, cur[1], cur[2]) if cur[0] == 0 else cur

    def model_getitem(self, c: Val, i: Val, st: State, node):
        if isinstance(c, ExtV) and c.name == PAGE and isinstance(i, Const) and i.v == 'Contents':
            s2 = st.copy()
            st.mon['s3contents'] = 'got'
            return [(ExtV(CONTENTS), st), (self.exc('KeyError', s2, node, "'Contents' (a page without keys)"), s2)]
        if isinstance(c, ExtV) and c.name == FILE and isinstance(i, Const) and i.v == 'Key':
            return [(self.new_key(st, node), st)]
        if isinstance(c, ExtV) and c.name in (CONTENTS, PAGES):
            self.find_('ALL-PAGES', st, node, 'every page and every key is visited', f'{norm(node)}: only part of the listing is looked at')
        return super().model_getitem(c, i, st, node)

    def model_slice(self, c, spec, st, node):
        if isinstance(c, ExtV) and c.name in (CONTENTS, PAGES):
            self.find_('ALL-PAGES', st, node, 'every page and every key is visited', f'{norm(node)}: only part of the listing is looked at')
        return super().model_slice(c, spec, st, node)

    def iter_spec(self, v: Val, st: State, node):
        from .model import IterSpec
        if isinstance(v, ExtV) and v.name == PAGES:
            self.count('page-loop')
            sp = IterSpec(0, None, None, lambda s, k: [(ExtV(PAGE), s)], 'pages of the listing')
            sp.s3 = 'pages'
            return sp
        if isinstance(v, ExtV) and v.name == CONTENTS:
            self.count('key-loop')
            st.mon['s3contents'] = 'iterated'
            sp = IterSpec(0, None, None, lambda s, k: [(ExtV(FILE), s)], 'keys of a page')
            sp.s3 = 'keys'
            return sp
        return super().iter_spec(v, st, node)

    def _src_bounds(self, it, st: State):
        if isinstance(it, ExtV) and it.name in (CONTENTS, PAGES):
            return 0, None, True, None, ('listing',)
        return super()._src_bounds(it, st)

    # ---- per-key protocol
    def is_key(self, v):
        return isinstance(v, StrV) and isinstance(v.origin, tuple) and v.origin and v.origin[0] == 's3key'

    def on_str_test(self, st, node, recv=None, name=None, args=(), taken=None):
        if self.is_key(recv):
            cur = self._record_for(st, recv)
            a = args[0] if args else None
            what = 'suffix' if isinstance(a, StrV) and a.origin == ('arg', 'suffix') else self.describe(a, st) if a is not None else '?'
            st.mon['s3key'] = (0, cur[1] + ((name, what, taken),), cur[2])

    def keep(self, st, node, key):
        cur = self._record_for(st, key)
        if cur[1] != GOOD:
            self.find_('ALL-PAGES', st, node, 'the only filter is endswith(suffix)',
                       f'a key is kept after the tests {list(cur[1])}: not exactly "key.endswith(suffix) is true"')
        st.mon['s3key'] = (0, cur[1], True)

    def close_key(self, st, node):
        cur = st.mon.get('s3key')
        if cur is not None and cur[1] == GOOD and not cur[2]:
            self.find_('ALL-PAGES', st, node, 'the only filter is endswith(suffix)', 'a key that ends with the suffix is dropped')
        st.mon['s3key'] = None
        st.mon['ref:s3cur'] = None

    def on_list_append(self, st, node, list=None, value=None):
        if self.is_key(value):
            self.count('append')
            self.keep(st, node, value)
        elif isinstance(value, Ref) and value.kind == 'list':
            pass            # extend with a list of kept keys: decided on the returned list
        elif isinstance(list, Ref) and st.mon.get('s3result') is None:
            pass

    def on_comp_yield(self, st, node, value=None):
        if self.is_key(value):
            cur = st.mon.get('s3key')
            if cur is not None and st.mon.get('ref:s3cur') == value.sym or any(getattr(g, 'ifs', None) for g in getattr(node, 'generators', [])):
                self.count('append')
                self.keep(st, node, value)         # yielded by a filtering stage (or after its test)
            # an unfiltered stage that merely passes keys on (map / plain comprehension) decides nothing
        elif st.mon.get('s3key') is not None:
            cur = st.mon['s3key']
            if cur[1] == GOOD:
                self.find_('ALL-PAGES', st, node, 'returns the accumulated list', f'{norm(node)} collects {self.describe(value, st)} instead of the key')

    def on_comp_skip(self, st, node, gen=None):
        self.close_key(st, node)

    def loop_iter_start(self, st, depth, spec, count):
        kind = getattr(spec, 's3', None)
        self.close_key(st, None)          # a key is tested and kept (or not) within one iteration of whatever loop handles it
        if kind == 'pages':
            if st.mon.get('s3contents') == 'got':
                self.find_('ALL-PAGES', st, None, 'every page and every key is visited', 'the Contents of a page are obtained but not iterated')
            st.mon['s3contents'] = None
        super().loop_iter_start(st, depth, spec, count)

    def run_loop(self, itval, st, body, node, joiner=None):
        s3 = isinstance(itval, ExtV) and itval.name in (PAGES, CONTENTS)
        exits, escapes = super().run_loop(itval, st, body, node, joiner=joiner)
        if s3:
            which = 'page' if itval.name == PAGES else 'key'
            for kind, s in exits:
                self.close_key(s, node)
                if itval.name == PAGES and s.mon.get('s3contents') == 'got':
                    self.find_('ALL-PAGES', s, node, 'every page and every key is visited', 'the Contents of a page are obtained but not iterated')
                if kind == 'break':
                    self.find_('ALL-PAGES', s, node, 'page loop and key loop have no break/return',
                               f'break ends the {which} loop early: later keys are lost')
            for ctl, s in escapes:
                if isinstance(ctl, tuple) and ctl[0] == 'ret':
                    self.find_('ALL-PAGES', s, node, 'page loop and key loop have no break/return',
                               f'return inside the {which} loop ends the listing early: later keys are lost')
                elif isinstance(ctl, tuple) and ctl[0] == 'raise' and isinstance(node, (ast.For, ast.ListComp, ast.GeneratorExp, ast.SetComp)):
                    self.find_('ALL-PAGES', s, node, 'page loop and key loop have no break/return',
                               f'{ctl[1].cls} ({ctl[1].msg}) leaves the {which} loop: the listing is aborted')
        return exits, escapes

    # ---- driver
    def run(self):
        prog = self.prog
        fi = prog.func('utils.s3:get_mos_files')
        st = base_state(self)
        bucket, suffix = StrV(('arg', 'bucket')), StrV(('arg', 'suffix'))
        prefix = NoneV(('arg', 'prefix')) if self.prefix_none else StrV(('arg', 'prefix'))
        params = [a.arg for a in fi.node.args.args] + [a.arg for a in fi.node.args.kwonlyargs]
        if len(params) < 3 or 'suffix' not in params or 'prefix' not in params:
            raise AnalysisError('anchor vanished: get_mos_files(bucket_name, prefix, suffix)')
        kwargs = {params[0]: bucket, 'prefix': prefix, 'suffix': suffix}
        self.results = []
        for v, s in self.call_function(fi, [], kwargs, st, None):
            if isinstance(v, Raise):
                self.results.append(('raise', v.exc.cls, v.exc.msg))
                continue
            if isinstance(v, Ref) and v.kind == 'list':
                le: ListE = s.get(v.sym)
                bad = [self.describe(t, s) for t in le.items if not self.is_key(t)]
                self.results.append(('list', le.kind, tuple(bad), le.ordered, tuple(le.stages)))
            else:
                self.results.append(('other', self.describe(v, s)))
        # forwarded arguments
        self.fwd = []
        for kw in self.paginate_args:
            b, p = kw.get('Bucket'), kw.get('Prefix')
            ok_b = isinstance(b, StrV) and b.origin == ('arg', 'bucket')
            if self.prefix_none:
                ok_p = isinstance(p, Const) and p.v == ''
            else:
                ok_p = isinstance(p, StrV) and p.origin == ('arg', 'prefix')
            self.fwd.append((ok_b, ok_p, repr(b), repr(p)))
        return self


def all_pages(res, prog: Program):
    res.rules['ALL-PAGES'] = ('get_mos_files, interpreted over a symbolic paginator (any number of pages, pages with or without Contents, any number of keys): '
                              'no page or key loop is left early, every key is kept iff key.endswith(suffix), Bucket/Prefix are forwarded '
                              "(None -> ''), and the collected list is what is returned")
    fi = prog.func('utils.s3:get_mos_files')
    flows = [S3Flow(prog, False).run(), S3Flow(prog, True).run()]
    constructs = ['page loop and key loop have no break/return', 'every page and every key is visited', 'the only filter is endswith(suffix)',
                  'returns the accumulated list']
    found = {}
    for fl in flows:
        for f in fl.findings.values():
            c = f.construct if f.construct in constructs else f.detail.split(':')[0]
            found.setdefault(c if c in constructs else 'the only filter is endswith(suffix)', []).append(f)
    for c in constructs:
        fs = found.get(c, [])
        if c == 'returns the accumulated list':
            for fl in flows:
                for r in fl.results:
                    if r[0] == 'list' and (r[2] or not r[3] or any(s in ('sorted', 'reversed', 'slice') for s in r[4])):
                        fs = fs + [type('F', (), {'detail': f'the returned list holds {list(r[2]) or "the keys re-ordered or sliced"}', 'line': fi.node.lineno})()]
                    elif r[0] == 'other':
                        fs = fs + [type('F', (), {'detail': f'the function returns {r[1]}, not the list of keys', 'line': fi.node.lineno})()]
                    elif r[0] == 'raise':
                        fs = fs + [type('F', (), {'detail': f'{r[1]} escapes: {r[2]}', 'line': fi.node.lineno})()]
                if not any(r[0] == 'list' for r in fl.results):
                    fs = fs + [type('F', (), {'detail': 'no path returns a list', 'line': fi.node.lineno})()]
        res.add('ALL-PAGES', fi.short, c, not fs, '' if not fs else fs[0].detail, fi.file, getattr(fs[0], 'line', fi.node.lineno) if fs else fi.node.lineno)
    # vacuity: the symbolic API must actually have been exercised
    for fl in flows:
        for what in ('paginate', 'page-loop', 'key-loop', 'key', 'append'):
            if not fl.seen.get(what):
                res.error(f'ALL-PAGES: the interpretation of get_mos_files never reached "{what}" (idiom not recognised) in {fl.entry}')
    okb = all(f[0] for fl in flows for f in fl.fwd) and all(fl.fwd for fl in flows)
    bad = next((f for fl in flows for f in fl.fwd if not f[0]), None)
    res.add('ALL-PAGES', fi.short, 'paginate(Bucket=bucket_name, Prefix=prefix)', okb and all(f[1] for f in flows[0].fwd),
            '' if okb and all(f[1] for f in flows[0].fwd) else f'bucket/prefix are not forwarded to the paginator ({bad or flows[0].fwd})', fi.file, fi.node.lineno)
    okn = bool(flows[1].fwd) and all(f[1] for f in flows[1].fwd)
    res.add('ALL-PAGES', fi.short, "prefix None -> ''", okn, '' if okn else f'a None prefix reaches the paginator as {[f[3] for f in flows[1].fwd]}', fi.file, fi.node.lineno)
    return flows
