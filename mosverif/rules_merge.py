"""mergeflow: typestate / taint / effect rules over the merge methods (DESIGN §4 C01-C06, C13, C20)."""
from __future__ import annotations

import ast
from dataclasses import replace
from typing import Dict, List, Optional

from . import schema
from .domains import ClsV, Const, ElemE, ExcV, IdxE, ListE, NoneV, ObjE, Ref, S, State, StrV, TupleV, Unknown
from .engine import Engine
from .front import AnalysisError, norm
from .harness import merge_entries
from .interp import Finding, Raise

MULTI_ID = {('element_source', 'storyID'), ('element_source', 'itemID'), ('roStoryDelete', 'storyID'),
            ('roItemDelete', 'itemID'), ('roItemMoveMultiple', 'itemID'), ('roStoryMove', 'storyID')}

WARN_KIND = {'StoryNotFoundWarning': 'story', 'ItemNotFoundWarning': 'item', 'DuplicateStoryWarning': 'dup'}


COLLECT_APPLY_RULES = {'IDX', 'IDX-DOMAIN', 'IDX-FRESH', 'IDX-ADVANCE', 'LOOP-INVARIANT-IDX', 'CONSERVE', 'PAYLOAD-ALL', 'SILENT-SUCCESS', 'MISS-REPORTED',
                       'WARN-CATEGORY', 'NO-EARLY-EXIT', 'VALIDATE-BEFORE-MUTATE', 'NO-BUILTIN-ESCAPE', 'FRAME', 'SWAP-EXCHANGE', 'DELETE-REMOVES', 'MOVE-ACTS'}


class MergeFlow(Engine):
    """Interprets RunningOrder.__add__(ro, msg) for one message class and evaluates the rules online."""

    def __init__(self, prog, cname: str, summaries=None, envelope_only: bool = False):
        super().__init__(prog, entry=f'{cname}.merge', summaries=summaries)
        self.envelope_only = envelope_only
        self.cname = cname
        self.role = schema.ROLES.get(cname, ('UNKNOWN', 'ro', None))
        self.sites: Dict[str, set] = {}
        self.outcomes: List[dict] = []
        self.merge_family = {c.qualname for c in prog.subclasses(prog.cls('MosFile'))}
        self.guard_tags: set = set()
        self.ro_root = None

    def count(self, kind, st, node, construct=None):
        func, n, file, line = self.attrib(st, node)
        self.sites.setdefault(kind, set()).add((func, construct or (norm(n) if n is not None else '')))

    def on_enter(self, fi, st, node):
        if fi.name == 'merge' and fi.cls is not None and fi.cls.qualname in self.merge_family:
            st.mon['merge_entered'] = True
        sup = getattr(super(), 'on_enter', None)
        if sup is not None:
            sup(fi, st, node)

    def in_merge(self, st: State) -> bool:
        return any(f.func is not None and f.func.name == 'merge' and f.func.cls is not None for f in st.frames)

    def prov(self, v, st: State) -> str:
        if isinstance(v, Ref) and v.kind == 'elem':
            return st.get(v.sym).prov
        return '?'

    def owner(self, v, st: State) -> str:
        """Tree a node currently belongs to: RO / MSG / COPY / NEW (following parents)."""
        seen = 0
        while isinstance(v, Ref) and v.kind == 'elem' and seen < 20:
            e: ElemE = st.get(v.sym)
            if e.prov in ('RO', 'MSG'):
                return e.prov
            if e.parent and e.parent in st.heap and e.attached is True:
                v = Ref('elem', e.parent)
                seen += 1
                continue
            if e.prov == 'NEW' and e.origin[0] == 'new' and len(e.origin) > 2 and e.origin[2]:
                v = Ref('elem', e.origin[2][1]) if e.origin[2][1] in st.heap else None
                seen += 1
                continue
            return e.prov
        return '?'

    # ------------------------------------------------------------- mutation
    def root_op(self, st: State, what, parent, n):
        if isinstance(parent, Ref) and parent.kind == 'elem' and st.get(parent.sym).origin[0] == 'root' and st.get(parent.sym).prov == 'RO':
            tag = st.get(n.sym).tag if isinstance(n, Ref) and n.kind == 'elem' else None
            prov = st.get(n.sym).prov if isinstance(n, Ref) and n.kind == 'elem' else '?'
            st.mon['rootops'] = (st.mon.get('rootops') or ()) + ((what, tag, prov),)

    def mark_mutation(self, st: State, node, what, parent):
        if self.owner(parent, st) == 'RO' and not st.mon.get('mutated'):
            func, n, file, line = self.attrib(st, node)
            st.mon['mutated'] = f'{what} at {func}: {norm(n) if n is not None else ""}'

    # -- loops that apply one operation to every element of a list of resolved nodes (three-phase moves)
    def _fold_loop(self, st: State, depth, spec):
        L = getattr(spec, 'listsym', None)
        if L is None or L not in st.heap or st.get(L).kind != 'accum':
            return
        log = (st.mon.get('itlog') or {}).get(depth, ())
        fl = st.mon.get('sym:fromlist') or {}
        ops = [r for r in log if r[0] in ('remove', 'insert', 'append', 'setitem')]
        if len(ops) == 1 and fl.get(ops[0][2]) == L:
            op = 'insert' if ops[0][0] == 'append' else ops[0][0]
        elif not ops:
            op = 'none'
        else:
            op = 'mixed'
        cur = dict(st.mon.get('loopop') or {})
        prev = cur.get(depth)
        cur[depth] = op if prev in (None, op) else 'mixed'
        st.mon['loopop'] = cur

    def _check_payload_iteration(self, st: State, depth):
        """PAYLOAD-ALL: an iteration over carried elements that neither inserts the element nor reports it"""
        pl = st.mon.get('payloadloops') or {}
        if depth not in pl:
            return
        log = (st.mon.get('itlog') or {}).get(depth, ())
        sunk = any(r[0] in ('insert', 'append', 'setitem') for r in log)
        warned = (st.mon.get('iterwarn') or {}).get(depth)
        if not sunk and not warned:
            fi = self.prog.cls(self.cname).find('merge')
            fd = Finding('PAYLOAD-ALL', fi.short if fi else self.cname, pl[depth],
                         'an iteration over the carried elements can end without inserting the element and without a warning: '
                         'a carried element is dropped silently', fi.file if fi else '?', fi.node.lineno if fi else 0, self.entry, self.witness(st))
            self.findings.setdefault(fd.key, fd)

    def loop_iter_start(self, st, depth, spec, count):
        if count > 0:
            self._check_payload_iteration(st, depth)
        iw = st.mon.get('iterwarn')
        if iw and depth in iw:
            iw = dict(iw)
            del iw[depth]
            st.mon['iterwarn'] = iw
        if count > 0:
            self._fold_loop(st, depth, spec)
        super().loop_iter_start(st, depth, spec, count)

    def loop_exit(self, st, depth, spec, count):
        if count > 0:
            self._check_payload_iteration(st, depth)
            self._fold_loop(st, depth, spec)
        cur = dict(st.mon.get('loopop') or {})
        status = cur.pop(depth, None)
        st.mon['loopop'] = cur
        L = getattr(spec, 'listsym', None)
        if status in ('remove', 'insert', 'mixed') and L in st.heap:
            key = (self.describe(Ref('list', L), st), status)
            cur_ops = dict(st.mon.get('lstops') or ())
            cur_ops[key] = min(cur_ops.get(key, 0) + 1, 3)
            st.mon['lstops'] = tuple(sorted(cur_ops.items()))
        super().loop_exit(st, depth, spec, count)

    def loop_done(self, st, depth):
        for name in ('payloadloops', 'iterwarn'):
            m = st.mon.get(name)
            if m and depth in m:
                m = dict(m)
                del m[depth]
                st.mon[name] = m
        cur = st.mon.get('loopop')
        if cur and depth in cur:
            cur = dict(cur)
            del cur[depth]
            st.mon['loopop'] = cur
        super().loop_done(st, depth)

    def bump(self, st: State, n, d):
        if isinstance(n, Ref) and n.sym in (st.mon.get('sym:fromlist') or {}):
            return      # element of a list of resolved nodes: accounted for per loop (lstops)
        if isinstance(n, Ref) and n.kind == 'elem' and st.get(n.sym).prov == 'RO':
            m = dict(st.mon.get('sym:delta') or {})
            m[n.sym] = max(-2, min(2, m.get(n.sym, 0) + d))
            st.mon['sym:delta'] = m

    def on_gc(self, st: State, dead):
        hits = st.mon.get('sym:hits')
        if hits:
            for sym in [s for s in hits if s in dead]:
                func, cons = hits[sym]
                fd = Finding('DELETE-REMOVES', func, cons, 'a named element was found but is not removed by the delete merge',
                             '?', 0, self.entry, self.witness(st))
                self.findings.setdefault(fd.key, fd)
            st.mon['sym:hits'] = {k: v for k, v in hits.items() if k not in dead}
        m = st.mon.get('sym:delta')
        if m:
            dd = set(st.mon.get('dead_delta') or ())
            keep = {}
            for sym, d in m.items():
                if sym in dead:
                    if d != 0:
                        dd.add((self.describe(Ref('elem', sym), st), d))
                else:
                    keep[sym] = d
            st.mon['sym:delta'] = keep
            st.mon['dead_delta'] = frozenset(dd)
        for name in ('sym:inserted', 'sym:tagof', 'sym:rootreq'):
            mm = st.mon.get(name)
            if mm and any(k in dead for k in mm):
                st.mon[name] = {k: v for k, v in mm.items() if k not in dead}

    def mon_roots(self, st: State):
        roots = list(super().mon_roots(st))
        return roots

    def check_frame(self, st: State, node, what, parent, n):
        """FRAME: which (parent, node) pairs a merge of this role may mutate."""
        own = self.owner(parent, st)
        kind, level, _ = self.role
        pd = self.describe(parent, st)
        if own == 'MSG':
            self.find_('MSG-READONLY', st, node, f'{what}(parent={pd})', 'the merge mutates the message tree itself')
            return
        if own != 'RO':
            return
        pe: ElemE = st.get(parent.sym)
        is_root = pe.origin[0] == 'root'
        is_base = pe.origin[0] == 'first' and pe.tag == 'roCreate' and st.get(pe.parent).origin[0] == 'root' if pe.parent in st.heap else False
        is_story = pe.tag == 'story' and pe.lookup is not None
        ok = False
        if kind in ('ROREPLACE', 'END'):
            ok = is_root or (pe.prov == 'NEW')
        elif level == 'story' or kind == 'META':
            ok = is_base
        elif level == 'item':
            ok = is_story
        if not ok and pe.prov == 'RO':
            self.find_('FRAME', st, node, f'{what}(parent={pd})',
                       f'a {kind}/{level} merge may not mutate children of {pd}')
        if what == 'remove' and isinstance(n, Ref) and n.kind == 'elem':
            ne: ElemE = st.get(n.sym)
            if ne.prov == 'RO':
                named = ne.lookup is not None or (kind == 'ROREPLACE' and ne.origin[0] == 'first') or self.located_by_message(n.sym, st)
                if not named:
                    self.find_('FRAME', st, node, f'remove(node={self.describe(n, st)})',
                               'the removed node was not located through an ID (or tag) carried by the message')
                if kind == 'META' and ne.tag == 'story':
                    self.find_('FRAME', st, node, f'remove(node={self.describe(n, st)})', 'metadata replacement removes a story')

    def located_by_message(self, nsym, st: State) -> bool:
        """A node picked by a hand-written search loop counts as named by the message when the path
        established an equality between a text under that node and a text carried by the message."""
        ts = st.mon.get('textsyms') or {}
        inv = {v: k for k, v in ts.items()}
        for f in st.facts:
            if f[0] != 'streq':
                continue
            ea, eb = inv.get(f[1]), inv.get(f[2])
            if ea is None or eb is None or ea not in st.heap or eb not in st.heap:
                continue
            for x, y in ((ea, eb), (eb, ea)):
                ex, ey = st.get(x), st.get(y)
                if (x == nsym or ex.parent == nsym) and ex.prov == 'RO' and ey.prov in ('MSG', 'COPY'):
                    return True
        return False

    def on_cmp_fork(self, st, node, left, right, taken):
        if not taken:
            return
        blocks = {}
        for v in (left, right):
            if isinstance(v, StrV) and v.origin and v.origin[0] == 'text':
                sym = v.origin[1][1]
                e = st.heap.get(sym)
                if isinstance(e, ElemE) and e.tag == 'mosSchema' and e.parent in st.heap:
                    blocks[self.owner(Ref('elem', e.parent), st)] = e.parent
        if 'RO' in blocks and ('MSG' in blocks or 'COPY' in blocks):
            m = dict(st.mon.get('sym:schemacmp') or {})
            m[blocks['RO']] = True
            st.mon['sym:schemacmp'] = m

    def on_remove(self, st, node, parent, node_):
        self.count('remove', st, node)
        hits = st.mon.get('sym:hits')
        if hits and isinstance(node_, Ref) and node_.sym in hits:
            hits = dict(hits)
            del hits[node_.sym]
            st.mon['sym:hits'] = hits
        if self.role[0] == 'META' and isinstance(node_, Ref) and node_.kind == 'elem':
            ne = st.get(node_.sym)
            if ne.prov == 'RO' and ne.tag == 'mosExternalMetadata' and node_.sym not in (st.mon.get('sym:schemacmp') or {}):
                self.find_('META-SCHEMA', st, node, f'remove({self.describe(node_, st)})',
                           'a mosExternalMetadata block is replaced without comparing its mosSchema with the carried block\'s')
        if self.owner(parent, st) == 'COPY':
            self.count('copy-mutation', st, node)
        self.check_frame(st, node, 'remove', parent, node_)
        self.root_op(st, 'remove', parent, node_)
        self.mark_mutation(st, node, 'remove', parent)
        self.bump(st, node_, -1)

    def on_insert(self, st, node, parent, node_, idx, entry):
        self.count('insert', st, node)
        if self.owner(parent, st) == 'COPY':
            self.count('copy-mutation', st, node)
            if isinstance(node_, Ref) and node_.kind == 'elem' and self.owner(node_, st) not in ('COPY',) and st.get(node_.sym).prov != 'COPY':
                self.find_('PAYLOAD-PURE', st, node, f'insert(parent={self.describe(parent, st)}, node={self.describe(node_, st)})',
                           'a node that is not part of the copied payload is inserted into it')
        self.check_frame(st, node, 'insert', parent, node_)
        self.check_share(st, node, 'insert', parent, node_)
        self.root_op(st, 'insert', parent, node_)
        self.mark_mutation(st, node, 'insert', parent)
        self.bump(st, node_, +1)
        self.mark_inserted(st, node_)
        self.check_story_body_gone(st, node, parent, node_)

    def check_story_body_gone(self, st, node, parent, node_):
        """SPLICE: the story handed to the running order by a roStorySend no longer has a storyBody child"""
        if self.role[0] != 'SEND' or self.owner(parent, st) != 'RO' or not (isinstance(node_, Ref) and node_.kind == 'elem'):
            return
        for sym, e in st.heap.items():
            if isinstance(e, ElemE) and e.parent == node_.sym and e.tag == 'storyBody' and e.attached is True:
                self.find_('SPLICE', st, node, f'insert({self.describe(node_, st)}) still holding <storyBody>',
                           'on this path the converted story reaches the running order with its <storyBody> wrapper still in place '
                           '(e.g. an empty storyBody): the story does not have the element layout the other messages produce')
                return

    def on_append(self, st, node, parent, node_):
        self.count('append', st, node)
        self.check_frame(st, node, 'append', parent, node_)
        self.check_share(st, node, 'append', parent, node_)
        self.root_op(st, 'append', parent, node_)
        self.mark_mutation(st, node, 'append', parent)
        self.bump(st, node_, +1)
        self.mark_inserted(st, node_)

    def on_setitem(self, st, node, parent, node_, idx, entry):
        self.count('setitem', st, node)
        self.check_frame(st, node, 'setitem', parent, node_)
        self.check_share(st, node, 'setitem', parent, node_)
        self.root_op(st, 'setitem', parent, node_)
        if isinstance(idx, Ref) and self.role[0] == 'SWAP':
            st.mon['setidx'] = ((st.mon.get('setidx') or ()) + (idx.sym,))[-4:]
        if self.owner(parent, st) == 'COPY':
            self.count('copy-mutation', st, node)
            if isinstance(node_, Ref) and node_.kind == 'elem' and st.get(node_.sym).prov not in ('COPY',):
                self.find_('PAYLOAD-PURE', st, node, f'{self.describe(parent, st)}[...] = {self.describe(node_, st)}',
                           'an element that is not part of the copied payload is put into it (carried content replaced)')
        if self.owner(parent, st) == 'RO' and (entry is None or entry.kind != 'fresh' or entry.delta != 0 or entry.parent != parent.sym):
            self.find_('FRAME', st, node, f'{self.describe(parent, st)}[...] = ...',
                       'a child is overwritten through a position that does not name the looked-up element: some other element is replaced')
        self.mark_mutation(st, node, 'setitem', parent)
        if entry is not None and entry.kind == 'fresh' and entry.anchor in st.heap:
            self.bump(st, Ref('elem', entry.anchor), -1)
        self.bump(st, node_, +1)

    def on_live_mutation(self, st, node, parent, op):
        if self.owner(parent, st) in ('RO', 'COPY'):
            f = st.frames[-1]
            self.find_('LIVE-ITER', st, f.callnode if f.callnode is not None else node, f'{op} while iterating {self.describe(parent, st)}',
                       'children are added to / removed from an element while its live child list is being iterated: the iteration skips or repeats siblings')

    def on_slice_store(self, st, node, parent, slice, value):
        self.mark_mutation(st, node, 'slice assignment', parent)
        own = self.owner(parent, st)
        if own == 'RO':
            self.find_('FRAME', st, node, f'{self.describe(parent, st)}[{slice}] = ...',
                       'a slice assignment replaces a whole range of existing children (as many as the slice is wide), not only the named element')
            self.find_('IDX-FRESH', st, node, f'{self.describe(parent, st)}[{slice}] = ...',
                       'children are replaced by a range of positions: elements that follow the named one are overwritten')
        elif own == 'MSG':
            self.find_('MSG-READONLY', st, node, f'{self.describe(parent, st)}[{slice}] = ...', 'the message tree is modified')

    def on_copy_memo(self, st, node, src=None, memo=None):
        if self.in_merge(st):
            self.find_('NO-SHARE', st, node, f'deepcopy({self.describe(src, st)}, memo=<{self.describe(memo, st)}>)',
                       'the deep copy goes through a memo dictionary supplied by the caller: copying the same message element again '
                       '(the message merged twice, or into two running orders) returns the first copy, which both running orders then share')

    def on_dict_store(self, st, node, dict=None, key=None, value=None):
        """carried elements collected in a mapping keyed by something that need not be unique (tag, text): later
        elements with an equal key silently replace earlier ones"""
        if not self.in_merge(st):
            return
        if isinstance(value, Ref) and value.kind == 'elem' and st.get(value.sym).prov in ('MSG', 'COPY') and self.owner(value, st) in ('MSG', 'COPY'):
            f = st.frame.func
            if f is not None and f.cls is not None and f.cls.qualname in self.merge_family and isinstance(key, (StrV, Const)):
                self.find_('PAYLOAD-ALL', st, node, f'mapping keyed by {self.describe(key, st)} holding {self.describe(value, st)}',
                           'carried elements are collected in a mapping: two elements with the same key (e.g. two mosExternalMetadata blocks) collapse into one')

    def on_comp_skip(self, st, node, gen):
        """a comprehension filter rejects a carried (message / copied payload) element inside a merge"""
        if not self.in_merge(st):
            return
        for n in ast.walk(gen.target):
            if isinstance(n, ast.Name):
                v = st.frame.env.get(n.id)
                if isinstance(v, Ref) and v.kind == 'elem' and self.owner(v, st) in ('MSG', 'COPY') and st.get(v.sym).prov in ('MSG', 'COPY'):
                    f = st.frame.func
                    if f is not None and f.cls is not None and f.cls.qualname in self.merge_family:
                        self.find_('PAYLOAD-ALL', st, node, 'filtered comprehension over ' + self.describe(v, st),
                                   'a comprehension filter drops carried child elements before they are spliced / inserted')

    def on_remove_by_index(self, st, node, parent, idx, entry):
        self.mark_mutation(st, node, 'delete by index', parent)
        if self.owner(parent, st) == 'RO':
            self.find_('FRAME', st, node, f'del {self.describe(parent, st)}[{self.idx_descr(entry, st)}]',
                       'a child is deleted by a position that no longer names the looked-up node: some other element is removed')

    def on_newchild(self, st, node, parent, node_, tag):
        self.count('newchild', st, node)

    def on_extend(self, st, node, parent, items):
        self.mark_mutation(st, node, 'extend', parent)
        self.find_('UNMODELLED-MUTATION', st, node, f'extend(parent={self.describe(parent, st)})', 'Element.extend is not analysed')

    def on_clear(self, st, node, parent):
        self.mark_mutation(st, node, 'clear', parent)
        self.check_frame(st, node, 'clear', parent, None)
        if self.owner(parent, st) == 'RO':
            self.find_('FRAME', st, node, f'clear({self.describe(parent, st)})', 'clears a running-order element')

    def on_elem_store(self, st, node, elem, attr, value):
        own = self.owner(elem, st)
        e: ElemE = st.get(elem.sym)
        if e.prov == 'RO':
            self.mark_mutation(st, node, f'store .{attr}', elem)
            self.find_('FRAME', st, node, f'{self.describe(elem, st)}.{attr} = ...', 'a merge stores into a running-order node')
        elif e.prov == 'MSG':
            self.find_('MSG-READONLY', st, node, f'{self.describe(elem, st)}.{attr} = ...', 'the message tree is modified')
        else:
            self.count('retag', st, node)
            if attr != 'tag' or not isinstance(value, Const):
                self.find_('PAYLOAD-PURE', st, node, f'{self.describe(elem, st)}.{attr} = ...',
                           'the copied payload is edited beyond the documented re-tagging')
            elif e.prov in ('COPY',) and value.v not in ('story', 'item', 'roCreate'):
                self.find_('PAYLOAD-PURE', st, node, f'{self.describe(elem, st)}.tag = {value.v!r}',
                           'a carried element is re-tagged to something other than story/item/roCreate')

    def mark_inserted(self, st, n):
        if isinstance(n, Ref) and n.kind == 'elem':
            m = dict(st.mon.get('sym:inserted') or {})
            m[n.sym] = True
            st.mon['sym:inserted'] = m

    def check_share(self, st, node, what, parent, n):
        """NO-SHARE: a message-owned element must not become a child of the running order."""
        if not (isinstance(n, Ref) and n.kind == 'elem'):
            return
        if self.owner(parent, st) != 'RO':
            return
        ne: ElemE = st.get(n.sym)
        self.count('sink', st, node)
        if ne.prov == 'MSG':
            self.find_('NO-SHARE', st, node, f'{what}(parent={self.describe(parent, st)}, node={self.describe(n, st)})',
                       'a subtree owned by the message object is linked into the running order without a copy')
        elif ne.origin[0] == 'shallowcopy' and ne.copy_of in st.heap and self.owner(Ref('elem', ne.copy_of), st) == 'MSG':
            self.find_('NO-SHARE', st, node, f'{what}(parent={self.describe(parent, st)}, node={self.describe(n, st)})',
                       'a shallow copy shares every child element with the message object: only copy.deepcopy separates the two trees')
        else:
            held = self.held_by_message(n.sym, st)
            if held:
                self.find_('NO-SHARE', st, node, f'{what}(parent={self.describe(parent, st)}, node={self.describe(n, st)})',
                           f'the inserted element stays referenced by the message object ({held}): merging the same object again inserts the very same element')

    def held_by_message(self, nsym, st: State):
        """Is the element stored (directly or inside a wrapper) in a field of a message object?"""
        for sym, e in st.heap.items():
            if isinstance(e, ObjE) and e.cls in self.merge_family and not self.prog.classes[e.cls].name == 'RunningOrder':
                for fname, v in e.fields:
                    if fname == '_xml':
                        continue
                    if isinstance(v, Ref) and v.sym == nsym:
                        return f'self.{fname}'
                    if isinstance(v, Ref) and v.kind == 'obj' and v.sym in st.heap:
                        x = st.get(v.sym).get('_xml')
                        if isinstance(x, Ref) and x.sym == nsym:
                            return f'self.{fname}.xml'
        return None

    # ---------------------------------------------------------------- index
    def on_index_use(self, st, node, parent, idx, entry, what):
        own = self.owner(parent, st)
        if own not in ('RO', 'COPY'):
            return
        self.count('index-use', st, node)
        pd = self.describe(parent, st)
        if entry is None:
            self.find_('IDX-DOMAIN', st, node, f'{what}(parent={pd}, index={self.describe(idx, st)})',
                       'the index is not a child position of this parent')
            return
        idd = self.idx_descr(entry, st) if not entry.descr else entry.descr
        cons = f'{what}(parent={pd}, index={idd})'
        if entry.kind in ('foreign', 'const'):
            self.find_('IDX-DOMAIN', st, node, cons, f'index from another index space: {entry.why or entry.kind}')
            return
        if entry.parent is not None and entry.parent != parent.sym and not self.same_node(entry.parent, parent.sym, st):
            self.find_('IDX-DOMAIN', st, node, cons, 'the index was computed in a different parent element')
            return
        if entry.kind == 'end' and entry.slack < 0:
            self.find_('IDX-FRESH', st, node, cons,
                       f'the position is {-entry.slack} before the current end of the parent (an end position that was '
                       'decremented or overtaken by insertions): the node does not land at the end')
            return
        if entry.kind == 'stale':
            self.find_('IDX-FRESH', st, node, cons, entry.why)
            return
        if entry.kind == 'gapped':
            self.find_('IDX-ADVANCE', st, node, cons, entry.why)
            return
        if entry.delta != 0:
            self.find_('IDX-FRESH', st, node, cons, f'the index is off by {entry.delta:+d} from the position it names ({entry.why})')
            return
        if entry.kind == 'fresh' and entry.anchor and entry.anchor in (st.mon.get('sym:inserted') or {}) and what == 'insert':
            self.find_('LOOP-INVARIANT-IDX', st, node, cons,
                       'the position names a node this merge inserted earlier: a later element lands before an earlier one')

    # --------------------------------------------------------------- lookups
    def pending(self, st) -> frozenset:
        return st.mon.get('pending') or frozenset()

    def on_lookup(self, st, node, fn, parent, tag, id, result, mode, iddescr, again=False, tagval=None):
        func, n, file, line = self.attrib(st, node)
        cons = f'{fn.short}({self.describe(parent, st)}, {tag}, id={iddescr})'
        self.count('lookup', st, node)
        cons_key = norm(n) if n is not None else cons
        if not self.in_merge(st):
            return
        if id is not None:
            self.count('id-lookup', st, node)
        if tag == 'item':
            self.count('item-lookup', st, node)
            pe = st.get(parent.sym)
            if not (pe.tag == 'story' and pe.lookup is not None and pe.prov == 'RO'):
                self.find_('STORY-SCOPED', st, node, cons, 'an item is looked up outside the story located through the message\'s story ID')
        if self.role[0] == 'META' and (mode == 'tag' or tag == 'mosExternalMetadata'):
            self.count('meta-replace', st, node)
            if mode == 'tag':
                x = tagval.origin[1][1] if isinstance(tagval, StrV) and tagval.origin and tagval.origin[0] == 'tag' else None
                if x is None or ('tagne', x, 'mosExternalMetadata') not in st.facts:
                    self.find_('META-SCHEMA', st, node, cons,
                               'the element to replace is chosen by tag name only although the carried tag may be mosExternalMetadata: '
                               'a block with a different mosSchema would be overwritten')
        if isinstance(id, NoneV) and mode == 'wildcard':
            self.find_('WILDCARD', st, node, cons,
                       'the ID operand may be None (blank or absent reference) and the lookup then selects the first child of that tag')
        if id is not None and tag == self.role[1]:
            st.mon['lvlookups'] = min((st.mon.get('lvlookups') or 0) + 1, 3)
        if result is not None and self.role[0] == 'MOVE' and tag == self.role[1]:
            st.mon['movehits'] = min((st.mon.get('movehits') or 0) + 1, 3)
        if result is not None and self.role[0] == 'DELETE' and tag == self.role[1]:
            hits = dict(st.mon.get('sym:hits') or {})
            hits[result.sym] = (func, cons_key)
            st.mon['sym:hits'] = hits
        if result is None and id is not None and not again:
            kind = tag if tag in ('story', 'item') else 'other'
            st.mon['pending'] = self.pending(st) | {(kind, func, cons_key)}

    def on_caught(self, stmt, handler, exc, st):
        if st.mon.get('loop_abandoned') and st.frame.func is not None and st.frame.func.name == 'merge':
            self.find_('NO-EARLY-EXIT', st, stmt, st.mon['loop_abandoned'],
                       'an exception raised inside the loop over named elements is caught outside it: the remaining elements are never applied')
            st.mon['loop_abandoned'] = None
        # a not-found condition signalled by a repository helper through an exception (e.g. _find_story)
        if self.in_merge(st) and st.frame.func.name == 'merge' and not exc.implicit and exc.cls in ('ValueError', 'LookupError', 'KeyError', 'IndexError'):
            func, n, file, line = self.attrib(st, stmt)
            st.mon['pending'] = self.pending(st) | {('any', func, f'except {exc.cls} from {exc.site[2] if exc.site else "?"}')}

    def on_in_fork(self, st, node, item, container, taken):
        """Duplicate test: <message story id> in <collection of running-order ids>."""
        if not self.in_merge(st) or not taken:
            return
        if isinstance(container, Ref) and container.kind == 'list':
            le: ListE = st.get(container.sym)
            from_ro = any(self._mentions_prov(t, st, 'RO') for t in le.items)
            from_msg = self._mentions_prov(item, st, 'MSG')
            if from_ro and from_msg:
                func, n, file, line = self.attrib(st, node)
                st.mon['pending'] = self.pending(st) | {('dup', func, norm(node))}

    def _mentions_prov(self, v, st, prov):
        o = getattr(v, 'origin', None)

        def walk(o):
            if isinstance(o, tuple):
                if len(o) == 2 and o[0] == '$':
                    return o[1] in st.heap and isinstance(st.get(o[1]), ElemE) and st.get(o[1]).prov == prov
                return any(walk(x) for x in o)
            return False
        return walk(o)

    def on_warn(self, st, node, category, message):
        self.count('warn', st, node)
        logs = st.mon.get('itlog') or {}
        if logs:
            st.mon['iterwarn'] = {d: True for d in logs}
        name = category.qual.split(':')[-1] if isinstance(category, ClsV) else '?'
        func, n, file, line = self.attrib(st, node)
        cons = f'warn({name})'
        if not self.hier.isa(name, 'MosRoMgrWarning'):
            self.find_('WARN-CATEGORY', st, node, cons, 'the category is not a mosromgr warning class')
        kind = WARN_KIND.get(name)
        pend = self.pending(st)
        match = [p for p in pend if p[0] == kind or p[0] == 'any']
        if match:
            st.mon['pending'] = pend - {sorted(match)[-1]}
            return
        other = [p for p in pend if p[0] in ('story', 'item', 'dup')]
        if other:
            p = sorted(other)[-1]
            st.mon['pending'] = pend - {p}
            self.find_('WARN-CATEGORY', st, node, cons, f'emitted for an unreported {p[0]} condition ({p[2]}): wrong category')
            return
        self.find_('SILENT-SUCCESS', st, node, cons,
                   'a warning is emitted on a path where no named element was missing or duplicated (or the same miss is reported twice)')

    # -- collect-then-apply: child positions put aside in a container (directly, in a tuple, a partial or a closure) to be spent by
    #    a later loop.  Whether the k-th stored position still fits depends on what that loop did before; and the decisions taken
    #    while collecting (duplicate / missing element) are reported while applying.  Neither the index typestate nor the
    #    per-path report typestate relate two loops element by element: no verdict instead of a guess.
    def _holds_position(self, v, st, depth=0) -> bool:
        if depth > 4:
            return False
        if isinstance(v, Ref):
            return v.kind == 'idx' and st.get(v.sym).parent is not None and self.owner(Ref('elem', st.get(v.sym).parent), st) == 'RO' \
                if v.kind == 'idx' and v.sym in st.heap and st.get(v.sym).parent in st.heap else False
        if isinstance(v, TupleV):
            return any(self._holds_position(x, st, depth + 1) for x in v.items)
        t = type(v).__name__
        if t == 'PartV':
            return any(self._holds_position(x, st, depth + 1) for x in tuple(v.args) + tuple(x for _, x in v.kwargs))
        if t == 'LamV':
            return any(self._holds_position(x, st, depth + 1) for x in tuple(x for _, x in v.captured) + tuple(v.defaults))
        return False

    def _deferred_positions(self, st, value):
        if any(f.func is not None and f.func.name == 'merge' for f in st.frames) and self._holds_position(value, st):
            self.collect_apply = True

    def on_list_append(self, st, node, list=None, value=None):
        if st.mon.get('itlog'):
            self._deferred_positions(st, value)

    def on_comp_yield(self, st, node, value=None):
        self._deferred_positions(st, value)

    def on_elem_bool(self, st, node, elem):
        self.count('elem-bool', st, node)
        self.find_('NO-ELEM-BOOL', st, node, f'bool({self.describe(elem, st)})',
                   'an Element is used as a condition inside a merge: its truth value is "has children" (a childless element is false) and testing it '
                   'emits DeprecationWarning on Python 3.12, which -W error turns into an exception in the middle of the merge'
                   + (f' (the running order was already changed: {st.mon["mutated"]})' if st.mon.get('mutated') else ''))

    def on_raise(self, stmt, exc, st):
        self.count('raise', st, stmt)
        if self.hier.isa(exc.cls, 'MosMergeError'):
            st.mon['pending'] = frozenset()

    # ------------------------------------------------------- id enumeration
    def on_find(self, st, node, parent, tag, result, path):
        if isinstance(tag, str) and st.get(parent.sym).origin[0] == 'root' and st.get(parent.sym).prov == 'RO' \
                and any(f.func is not None and f.func.name == '__add__' for f in st.frames) \
                and not any(f.func is not None and f.func.name == 'merge' for f in st.frames) \
                and tag not in schema.DOCUMENTED_TAGS:          # (reading the running order's own roCreate, e.g. for a message text, is no marker probe)
            self.guard_tags.add(tag)
            if result is not None:
                st.mon['guard_present'] = tuple(sorted(set(st.mon.get('guard_present') or ()) | {tag}))
        if path or not isinstance(tag, str) or tag not in schema.ID_TAGS:
            return
        pe: ElemE = st.get(parent.sym)
        if pe.prov != 'MSG' or (pe.tag, tag) not in MULTI_ID:
            return
        # which wrapper object is reading its implicit id?
        obj = None
        for f in reversed(st.frames):
            v = f.env.get('self')
            if isinstance(v, Ref) and v.kind == 'obj' and st.get(v.sym).cls not in self.merge_family:
                obj = st.get(v.sym)
                break
        if obj is not None and obj.site is not None:
            file, line, func, text = obj.site
            rule = 'ID-FALLBACK' if 'id' in obj.explicit else 'ENUM-PER-ID'
            detail = ('an explicit but blank ID falls back to the first %s of %s' % (tag, pe.tag)) if rule == 'ID-FALLBACK' else \
                ('one wrapper per <%s> container reads only its first %s: further IDs are never acted upon' % (pe.tag, tag))
            fd = Finding(rule, func, f'{text} over <{pe.tag}>', detail, file, line, self.entry, self.witness(st))
            self.findings.setdefault(fd.key, fd)
        else:
            self.find_('ENUM-PER-ID', st, node, f'{self.describe(parent, st)}.find({tag!r})',
                       f'only the first {tag} of a multi-ID <{pe.tag}> is read')

    def instantiate(self, c, args, kwargs, st, node):
        if 'id' in kwargs and node is not None and self.in_merge(st):
            self.count('explicit-id', st, node)
        return super().instantiate(c, args, kwargs, st, node)

    def on_setfield(self, obj, name, old, new, st, node):
        self.check_stale_cache(obj, name, new, st, node)
        e = st.get(obj.sym)
        if e.cls in self.merge_family and self.in_merge(st):
            if isinstance(new, Ref) and new.kind == 'elem' and self.owner(new, st) == 'RO':
                cname = e.cls.split(':')[-1]
                if not self.prog.classes[e.cls].is_subclass_of(self.prog.cls('RunningOrder')) or cname == self.cname:
                    self.find_('NO-RO-CAPTURE', st, node, f'self.{name} = {self.describe(new, st)}',
                               'the message object keeps a reference into the running order')
            # state kept on the Python objects instead of the document: it is neither serialised nor visible to a second
            # object built over the same XML, so results start to depend on the history of the object
            f = st.frame.func
            if f is not None and f.name != '__init__' and f.kind not in ('property',) and not any(fr.func is not None and fr.func.kind == 'property' for fr in st.frames):
                who = 'the running order object' if self.prog.classes[e.cls].is_subclass_of(self.prog.cls('RunningOrder')) and e.cls.split(':')[-1] != self.cname else 'the message object'
                self.find_('NO-HIDDEN-STATE', st, node, f'<{who}>.{name} = ...',
                           f'the merge stores {name} on {who}: the effect of the message is no longer a function of the two documents '
                           '(it is lost by a write/read round trip and differs between objects with identical XML)')

    def _is_payload_list(self, itval, st) -> bool:
        """Lists of Story/Item wrappers or of message elements (not lists of indices / looked-up nodes)."""
        v = itval
        while hasattr(v, 'src') and not isinstance(v, Ref):
            v = v.src
        if isinstance(v, Ref) and v.kind == 'elem':
            return self.owner(v, st) in ('MSG', 'COPY')
        if isinstance(v, Ref) and v.kind == 'list':
            le = st.get(v.sym)
            if le.kind in ('findall', 'children', 'live') and le.parent in st.heap:
                return self.owner(Ref('elem', le.parent), st) in ('MSG', 'COPY')
            for t in le.items:
                if isinstance(t, Ref) and t.kind == 'obj' and st.get(t.sym).cls not in self.merge_family:
                    return True
                if isinstance(t, Ref) and t.kind == 'elem' and st.get(t.sym).prov in ('MSG', 'COPY'):
                    return True
            if le.src and le.src in st.heap:
                return self._is_payload_list(Ref('list', le.src), st)
        return False

    def run_loop(self, itval, st, body, node, joiner=None):
        in_merge_frame = st.frames and st.frame.func is not None and st.frame.func.name == 'merge' and st.frame.func.cls is not None
        from_msg = False
        if in_merge_frame and isinstance(node, (ast.For,)):
            d = self.describe(itval, st)
            from_msg = 'self.xml' in d and self._is_payload_list(itval, st)
            if from_msg:
                func, n, file, line = self.attrib(st, node)
                self.sites.setdefault('payload-loop', set()).add((func, 'for ... in ' + norm(node.iter)))
                bad = [type(x).__name__ for x in ast.walk(node.iter) if isinstance(x, (ast.Slice, ast.IfExp, ast.ListComp, ast.GeneratorExp))]
                bad += [x.func.id for x in ast.walk(node.iter) if isinstance(x, ast.Call) and isinstance(x.func, ast.Name)
                        and x.func.id in ('reversed', 'sorted', 'set', 'filter', 'frozenset')]
                if bad:
                    self.find_('PAYLOAD-ALL', st, node.iter, 'for ... in ' + norm(node.iter),
                               f'the merge filters, slices or reorders the carried/named elements before applying them ({bad})')
        if from_msg and self.role[0] in ('INSERT', 'APPEND', 'REPLACE', 'META', 'SEND'):
            depth = (len(st.frames), st.frame.loops + 1)
            pl = dict(st.mon.get('payloadloops') or {})
            pl[depth] = 'for ... in ' + norm(node.iter)
            st.mon['payloadloops'] = pl
        exits, escapes = super().run_loop(itval, st, body, node, joiner=joiner)
        if from_msg:
            for kind, s in exits:
                if kind == 'break':
                    self.find_('PAYLOAD-ALL', s, node, 'for ... in ' + norm(node.iter), 'a break leaves the remaining carried/named elements unapplied')
            for ctl, s in escapes:
                if isinstance(ctl, tuple) and ctl[0] == 'ret':
                    self.find_('NO-EARLY-EXIT', s, node, 'for ... in ' + norm(node.iter),
                               'the merge returns from inside the loop over named elements: the remaining ones are skipped silently')
                elif isinstance(ctl, tuple) and ctl[0] == 'raise':
                    s.mon['loop_abandoned'] = 'for ... in ' + norm(node.iter)
        return exits, escapes

    # --------------------------------------------------------------- driver
    def run(self):
        add = self.prog.func('RunningOrder.__add__')
        entries = merge_entries(self, self.cname, envelope_only=self.envelope_only)
        for ro, msg, st in entries:
            self.ro_root = st.get(ro.sym).get('_xml')
            for v, s in self.call_function(add, [msg], {}, st, None, self_val=ro):
                self.judge_outcome(v, s, ro)
        if getattr(self, 'collect_apply', False):
            # positions were put aside in a container for a later loop: findings of the rules that relate a lookup, its report
            # and its edit within one loop iteration are not trustworthy here - they are withheld and the class gets no verdict
            relevant = {'VALIDATE-BEFORE-MUTATE'} if self.envelope_only else COLLECT_APPLY_RULES     # (the envelope-only pass is consulted for that rule alone)
            held = [k for k, f in self.findings.items() if f.rule in relevant]
            if held:
                rules = sorted({self.findings[k].rule for k in held})
                for k in held:
                    del self.findings[k]
                self._stored_order()
                raise AnalysisError(f'collect-then-apply: positions in the running order are stored in a container for a later loop to use; {len(held)} finding(s) of '
                                    f'{rules} withheld - outside the index abstraction')
        return self

    def _stored_order(self):
        """STORED-ORDER: the one collect-then-apply shape that *is* decided, syntactically, on merge() itself:

            L = []
            for src in self.<sources>:  ... _, i = <search>(...) ... L.append(i)          # positions, in message order
            for j in ORDER(L):  del P[j]  |  P.pop(j)  |  P.remove(P[j])                      # spent by bare position

        Deleting by positions looked up beforehand is right only when they are spent in strictly descending order without
        repeats.  ORDER = L, reversed(L), L[::-1], sorted(L): definitely not descending for some message (the message names
        elements in any order).  ORDER = sorted(L, reverse=True) and friends without set(): a reference named twice is spent
        twice and removes an element the message did not name - unless merge() tests membership of L somewhere (then: no
        verdict).  Everything else (set-based orders, arithmetic on the position, other edits): no verdict, as before."""
        fi = self.prog.cls(self.cname).find('merge')
        if fi is None:
            return
        fn = fi.node
        lists = {t.id for n in ast.walk(fn) if isinstance(n, ast.Assign) and isinstance(n.value, ast.List) and not n.value.elts
                 for t in n.targets if isinstance(t, ast.Name)}
        searched = set()            # names bound by tuple-unpacking a call (`item, item_index = find_child(...)`)
        for n in ast.walk(fn):
            if isinstance(n, ast.Assign) and isinstance(n.value, ast.Call):
                for t in n.targets:
                    if isinstance(t, ast.Tuple):
                        searched |= {e.id for e in t.elts if isinstance(e, ast.Name)}
        from_message = {}
        for loop in ast.walk(fn):
            if not isinstance(loop, ast.For) or not norm(loop.iter).startswith('self.'):
                continue
            for n in ast.walk(loop):
                if isinstance(n, ast.Call) and isinstance(n.func, ast.Attribute) and n.func.attr == 'append' and isinstance(n.func.value, ast.Name) \
                        and n.func.value.id in lists and len(n.args) == 1 and isinstance(n.args[0], ast.Name) and n.args[0].id in searched:
                    from_message[n.func.value.id] = loop
        if not from_message:
            return
        for name in from_message:
            others = [n for n in ast.walk(fn) if isinstance(n, ast.Name) and n.id == name]
            guarded = any(isinstance(n, ast.Compare) and any(isinstance(o, (ast.In, ast.NotIn)) for o in n.ops)
                          and any(isinstance(c, ast.Name) and c.id == name for c in n.comparators) for n in ast.walk(fn))
            for loop in ast.walk(fn):
                if not isinstance(loop, ast.For) or not isinstance(loop.target, ast.Name) or loop is from_message[name]:
                    continue
                order = self._order_of(loop.iter, name)
                if order is None:
                    continue
                j = loop.target.id
                if any(isinstance(n, ast.Name) and n.id == j and isinstance(n.ctx, ast.Store) for st_ in loop.body for n in ast.walk(st_)):
                    continue
                spent = []
                clean = True
                for st_ in loop.body:
                    for n in ast.walk(st_):
                        if isinstance(n, ast.Name) and n.id == j:
                            spent.append(n)
                    if isinstance(st_, ast.Delete) and len(st_.targets) == 1 and isinstance(st_.targets[0], ast.Subscript) \
                            and isinstance(st_.targets[0].slice, ast.Name) and st_.targets[0].slice.id == j:
                        continue
                    if isinstance(st_, ast.Expr) and isinstance(st_.value, ast.Call) and isinstance(st_.value.func, ast.Attribute):
                        c = st_.value
                        if c.func.attr == 'pop' and len(c.args) == 1 and isinstance(c.args[0], ast.Name) and c.args[0].id == j:
                            continue
                        if c.func.attr == 'remove' and len(c.args) == 1 and isinstance(c.args[0], ast.Subscript) and isinstance(c.args[0].slice, ast.Name) \
                                and c.args[0].slice.id == j and norm(c.args[0].value) == norm(c.func.value):
                            continue
                    clean = False
                if not clean or len(spent) != len(loop.body) or len(others) < 3:
                    continue
                why = None
                if order in ('as-is', 'reversed', 'ascending'):
                    why = (f'the positions in `{name}` were looked up in message order before anything was removed and are spent {order}: a message naming '
                           'the elements in another order than they stand (or, ascending, any two elements) removes an element it does not name and keeps one it names')
                elif order == 'descending-with-repeats' and not guarded:
                    why = (f'the positions in `{name}` are spent in descending order but a reference named twice is stored twice: the second deletion at that '
                           'position removes the next element, which the message does not name')
                if why:
                    cons = 'for ... in ' + norm(loop.iter)
                    for rule in ('IDX-FRESH', 'FRAME'):
                        fd = Finding(rule, fi.short, cons, 'STORED-ORDER: ' + why, fi.file, loop.lineno, self.entry, [])
                        self.findings.setdefault(fd.key, fd)

    @staticmethod
    def _order_of(it, name):
        """how the apply loop orders the stored positions: as-is | reversed | ascending | descending-with-repeats | None (anything else)"""
        def is_l(e):
            return isinstance(e, ast.Name) and e.id == name

        def rev_kw(c):
            return len(c.keywords) == 1 and c.keywords[0].arg == 'reverse' and isinstance(c.keywords[0].value, ast.Constant) and c.keywords[0].value.value is True

        def rev_slice(e):
            return isinstance(e, ast.Subscript) and isinstance(e.slice, ast.Slice) and e.slice.lower is None and e.slice.upper is None \
                and isinstance(e.slice.step, ast.UnaryOp) and isinstance(e.slice.step.op, ast.USub) and isinstance(e.slice.step.operand, ast.Constant) \
                and e.slice.step.operand.value == 1

        def call(e, fname):
            return isinstance(e, ast.Call) and isinstance(e.func, ast.Name) and e.func.id == fname and len(e.args) == 1
        if is_l(it):
            return 'as-is'
        if call(it, 'reversed') and not it.keywords and is_l(it.args[0]):
            return 'reversed'
        if rev_slice(it) and is_l(it.value):
            return 'reversed'
        if call(it, 'sorted') and is_l(it.args[0]):
            if not it.keywords:
                return 'ascending'
            if rev_kw(it):
                return 'descending-with-repeats'
        if call(it, 'reversed') and not it.keywords and call(it.args[0], 'sorted') and not it.args[0].keywords and is_l(it.args[0].args[0]):
            return 'descending-with-repeats'
        if rev_slice(it) and call(it.value, 'sorted') and not it.value.keywords and is_l(it.value.args[0]):
            return 'descending-with-repeats'
        return None

    def run_refusal(self, marker: str):
        """RunningOrder.__add__ on a completed running order (marker present) and a message about which *nothing* is
        assumed - no schema, not even the envelope: the refusal must not depend on the message at all."""
        from .harness import base_state, base_tag_literal, make_object, new_root
        add = self.prog.func('RunningOrder.__add__')
        st = base_state(self)
        ro_root = new_root(st, 'RO', 'RO')
        msg_root = new_root(st, 'MSG', 'MSG', schema_on=False)
        outs = []
        for ro, s1 in make_object(self, self.prog.cls('RunningOrder'), ro_root, st):
            for msg, s2 in make_object(self, self.prog.cls(self.cname), msg_root, s1):
                if isinstance(ro, Raise) or isinstance(msg, Raise):
                    raise AnalysisError('constructor raises in the refusal harness')
                s2.frame.env['ro'], s2.frame.env['msg'] = ro, msg
                s2.mon['sym:rootreq'] = {ro_root.sym: (base_tag_literal(self, self.prog.cls('RunningOrder')),)}
                sym = s2.new(ElemE('RO', marker, ro_root.sym, True, ('first', S(ro_root.sym), marker), schema=True))
                s2.first[(ro_root.sym, marker)] = sym
                self.ro_root = s2.get(ro.sym).get('_xml')
                saved = dict(self.findings)
                try:
                    for v, s in self.call_function(add, [msg], {}, s2, None, self_val=ro):
                        if isinstance(v, Raise):
                            site = v.exc.site if v.exc.site else ('?', 0, '?', '?')
                            outs.append({'result': 'raise ' + v.exc.cls, 'msg': v.exc.msg, 'file': site[0], 'line': site[1], 'func': site[2], 'text': site[3],
                                         'mutated': bool(s.mon.get('mutated'))})
                        else:
                            outs.append({'result': 'return', 'mutated': bool(s.mon.get('mutated'))})
                finally:
                    self.findings = saved
        return outs

    def judge_outcome(self, v, s: State, ro):
        kind, level, _ = self.role
        rec = {'result': 'raise ' + v.exc.cls if isinstance(v, Raise) else 'return', 'mutated': s.mon.get('mutated'),
               'rootops': list(s.mon.get('rootops') or ())}
        self.outcomes.append(rec)
        # completion guard: which guard tags were present at entry on this path?
        rec['guard_present'] = list(s.mon.get('guard_present') or ())
        evs = [e.kind for e in s.events() if e.kind in ('lookup', 'remove', 'insert', 'append', 'setitem', 'newchild', 'warn', 'copy')]
        rec['effects'] = sorted(set(evs))
        if kind == 'END' and not isinstance(v, Raise):
            # what ended up inside the new root child(ren): (provenance, tag, is it a deep copy of the message's own element)
            inside = []
            root_sym = self.ro_root.sym if isinstance(self.ro_root, Ref) else None
            for sym, e in s.heap.items():
                if isinstance(e, ElemE) and e.prov == 'NEW' and e.parent == root_sym and e.attached is True:
                    for csym, c in s.heap.items():
                        if isinstance(c, ElemE) and c.parent == sym and c.attached is True:
                            src = s.heap.get(c.copy_of) if c.copy_of else None
                            whole = isinstance(src, ElemE) and src.prov == 'MSG' and src.parent is not None and isinstance(s.heap.get(src.parent), ElemE) \
                                and s.heap[src.parent].origin[0] == 'root' and c.origin and c.origin[0] == 'copy'
                            inside.append([c.prov, c.tag, bool(whole)])
            rec['marker_content'] = sorted(inside)
        if not isinstance(v, Raise) and isinstance(ro, Ref):
            fi = self.prog.cls('RunningOrder').find('completed')
            vals = set()
            if fi is not None:
                saved_entry, saved_findings = self.entry, dict(self.findings)
                try:
                    for cv, cs in self.call_function(fi, [], {}, s.copy(), None, self_val=ro):
                        vals.add(repr(cv.v) if isinstance(cv, Const) else ('raise ' + cv.exc.cls if isinstance(cv, Raise) else self.describe(cv, cs)))
                finally:
                    self.findings = saved_findings
            rec['completed_after'] = sorted(vals)
        if isinstance(v, Raise):
            exc = v.exc
            file, line, func, text = exc.site if exc.site else ('?', 0, '?', '?')
            what = text if not exc.implicit else f'{exc.cls} from {text}'
            if s.mon.get('mutated'):
                fd = Finding('VALIDATE-BEFORE-MUTATE', func, what,
                             f'reachable after the running order was already changed ({s.mon["mutated"]}): {exc.msg}',
                             file, line, self.entry, self.witness(s))
                self.findings.setdefault(fd.key, fd)
            if not self.hier.isa(exc.cls, 'MosMergeError'):
                fd = Finding('NO-BUILTIN-ESCAPE', func, what,
                             f'{exc.cls} escapes {self.entry} for a schema-shaped message: {exc.msg}',
                             file, line, self.entry, self.witness(s))
                self.findings.setdefault(fd.key, fd)
            return
        # normal return
        if not s.mon.get('merge_entered'):
            fd = Finding('ALWAYS-DISPATCH', 'RunningOrder.__add__', 'return without dispatching to merge()',
                         'adding a message to a running order that is not completed returns without handing it to its merge(): the message is dropped silently',
                         '?', 0, self.entry, self.witness(s))
            self.findings.setdefault(fd.key, fd)
        need = {'SWAP': 2}.get(kind)          # (other roles have legitimate early exits: a story that is not there, an empty list of references)
        if need and not self.envelope_only and (s.mon.get('lvlookups') or 0) < need and s.mon.get('merge_entered'):
            self.find_at_merge('MISS-REPORTED', f'normal return after {s.mon.get("lvlookups") or 0} of the (at least) {need} named {level} references were looked up',
                               f'the merge returns normally without looking up every {level} it names: a reference that matches nothing is neither raised nor warned about')
        if not (isinstance(v, Ref) and v == ro):
            self.find_at_merge('RETURNS-RO', f'return {self.describe(v, s)}', 'merge must return the running order it was given')
        for sym, (func, cons) in (s.mon.get('sym:hits') or {}).items():
            fd = Finding('DELETE-REMOVES', func, cons, 'a named element was found but is not removed by the delete merge',
                         '?', 0, self.entry, self.witness(s))
            self.findings.setdefault(fd.key, fd)
        for p in sorted(self.pending(s)):
            k, func, cons = p
            fd = Finding('MISS-REPORTED', func, cons,
                         f'a {k} reference that matches nothing is neither raised as MosMergeError nor reported with a warning',
                         '?', 0, self.entry, self.witness(s))
            self.findings.setdefault(fd.key, fd)
        deltas = [(self.describe(Ref('elem', sym), s), d) for sym, d in (s.mon.get('sym:delta') or {}).items() if d != 0 and sym in s.heap]
        deltas += list(s.mon.get('dead_delta') or ())
        lst = {}
        for (descr, op), n in (s.mon.get('lstops') or ()):
            lst.setdefault(descr, []).extend([op] * n)
        if kind == 'SWAP' and s.mon.get('mutated'):
            used = s.mon.get('setidx') or ()
            if used and (len(used) != 2 or len(set(used)) != 2):
                self.find_at_merge('SWAP-EXCHANGE', f'{len(used)} item assignments through {len(set(used))} distinct positions',
                                   'a swap must assign each of the two looked-up positions exactly once (each element to the other\'s position)')
        if kind == 'MOVE' and not s.mon.get('mutated') and (s.mon.get('movehits') or 0) >= 3:
            # (with a single source "already in place" is a legitimate no-op; with two or more resolved sources a return without
            # any edit drops the others)
            self.find_at_merge('MOVE-ACTS', 'normal return without any edit although the target and at least two sources were found',
                               'a move whose references all resolve must move the named elements: this path returns the running order untouched, silently')
        if kind in ('MOVE', 'SWAP'):
            for descr, ops in sorted(lst.items()):
                if 'mixed' in ops or ops.count('remove') != ops.count('insert'):
                    self.find_at_merge('CONSERVE', f'elements of {descr}: loops apply {ops}',
                                       'every resolved node must be removed exactly once and re-inserted exactly once')
        elif kind == 'DELETE':
            for descr, ops in sorted(lst.items()):
                if 'insert' in ops:
                    self.find_at_merge('CONSERVE', f'elements of {descr}: loops apply {ops}', 'a delete must not add nodes')
        if kind in ('MOVE', 'SWAP'):
            for descr, d in sorted(set(deltas)):
                self.find_at_merge('CONSERVE', f'{descr}: net {d:+d}',
                                   'a move/swap must re-insert exactly the nodes it removes')
        elif kind == 'DELETE':
            for descr, d in sorted(set(deltas)):
                if d > 0:
                    self.find_at_merge('CONSERVE', f'{descr}: net {d:+d}', 'a delete must not add nodes')
        elif kind in ('REPLACE', 'SEND') and s.mon.get('mutated'):
            removed = [x for x in deltas if x[1] < 0]
            added = [x for x in deltas if x[1] > 0]
            if len(removed) != 1 or removed[0][1] != -1 or added:
                self.find_at_merge('CONSERVE', f'running-order nodes removed {sorted(set(removed))} / re-added {sorted(set(added))}',
                                   'a replace/send merge removes exactly the addressed element (once) and re-inserts no running-order node')
        if s.mon.get('itlog'):
            pass

    def find_at_merge(self, rule, construct, detail):
        fi = self.prog.cls(self.cname).find('merge')
        fd = Finding(rule, fi.short if fi else self.cname, construct, detail, fi.file if fi else '?',
                     fi.node.lineno if fi else 0, self.entry, [])
        self.findings.setdefault(fd.key, fd)
