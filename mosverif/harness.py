"""Construction of symbolic entry states (running order object, message object) and drivers."""
from __future__ import annotations

from typing import Dict, List, Optional, Tuple

from . import schema
from .domains import ClsV, Const, ElemE, Frame, NoneV, ObjE, Ref, S, State, StrV, Unknown
from .front import AnalysisError, ClassInfo, FuncInfo, Program
from .interp import Interp, Raise


def entry_frame(prog: Program, st: State, modname='mosromgr.mostypes'):
    m = prog.modules.get(modname) or next(iter(prog.modules.values()))
    import ast
    dummy = FuncInfo(modname + ':<entry>', '<entry>', ast.parse('def _e(): pass').body[0], m, None, 'function')
    st.frames.append(Frame(dummy))


def new_root(st: State, prov: str, label: str, schema_on=True) -> Ref:
    sym = st.new(ElemE(prov, schema.ROOT, None, False, ('root', label), schema=schema_on))
    return Ref('elem', sym)


def make_object(interp: Interp, ci: ClassInfo, root: Ref, st: State) -> List[Tuple[object, State]]:
    """Instantiate a MosFile-family class over *root* by running its __init__."""
    return interp.instantiate(ClsV(ci.qualname), [root], {}, st, None)


def base_state(interp: Interp) -> State:
    st = State()
    entry_frame(interp.prog, st)
    return st


def merge_entries(interp: Interp, cls_name: str, envelope_only: bool = False):
    """States at the entry of RunningOrder.__add__(ro, msg) for message class *cls_name*."""
    prog = interp.prog
    st = base_state(interp)
    ro_root = new_root(st, 'RO', 'RO')
    msg_root = new_root(st, 'MSG', 'MSG')
    ro_cls = prog.cls('RunningOrder')
    msg_cls = prog.cls(cls_name)
    outs = []
    for ro, s1 in make_object(interp, ro_cls, ro_root, st):
        if isinstance(ro, Raise):
            raise AnalysisError(f'RunningOrder constructor raises {ro.exc.cls}')
        for msg, s2 in make_object(interp, msg_cls, msg_root, s1):
            if isinstance(msg, Raise):
                raise AnalysisError(f'{cls_name} constructor raises {msg.exc.cls}')
            s2.frame.env['ro'] = ro
            s2.frame.env['msg'] = msg
            req = dict(s2.mon.get('sym:rootreq') or {})
            req[ro_root.sym] = (base_tag_literal(interp, ro_cls),)
            req[msg_root.sym] = (base_tag_literal(interp, msg_cls),)
            s2.mon['sym:rootreq'] = req
            if envelope_only:
                s2.mon['envelope_only'] = True
            outs.append((ro, msg, s2))
    return outs


def base_tag_literal(interp: Interp, ci: ClassInfo) -> str:
    """The literal returned by the class's resolved ``base_tag_name`` property."""
    import ast
    fi = ci.find('base_tag_name')
    if fi is None:
        raise AnalysisError(f'anchor vanished: {ci.name}.base_tag_name')
    rets = [n for n in ast.walk(fi.node) if isinstance(n, ast.Return) and n.value is not None]
    if len(rets) == 1 and isinstance(rets[0].value, ast.Constant) and isinstance(rets[0].value.value, str):
        return rets[0].value.value
    raise AnalysisError(f'{ci.name}.base_tag_name does not return a string literal')
