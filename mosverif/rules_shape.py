"""shape: structural rules over single functions (DESIGN §4 C07, C09, C10, C11, C14, C18, C19)."""
from __future__ import annotations

import ast
from typing import List, Optional

from .exchier import ExcHier
from .front import AnalysisError, FuncInfo, Program, norm
from .report import CheckResult


def fresh_read(res: CheckResult, prog: Program):
    """FRESH-READ / NO-MEMO: MosReader.mos_object re-creates the message on every access and stores nothing."""
    res.rules['FRESH-READ'] = 'MosReader.mos_object calls the restore function on every access and stores nothing on self'
    fi = prog.func('MosReader.mos_object')
    stores = [n for n in ast.walk(fi.node) if isinstance(n, (ast.Assign, ast.AugAssign, ast.AnnAssign))
              and any(isinstance(t, ast.Attribute) for t in (n.targets if isinstance(n, ast.Assign) else [n.target]))]
    rets = [n for n in ast.walk(fi.node) if isinstance(n, ast.Return) and n.value is not None]
    calls_restore = all(isinstance(r.value, ast.Call) and isinstance(r.value.func, ast.Attribute)
                        and isinstance(r.value.func.value, ast.Name) and r.value.func.value.id == 'self' for r in rets) and bool(rets)
    res.add('FRESH-READ', fi.short, 'return self.<restore>(*args) without caching', not stores and calls_restore,
            'the message object is cached on the reader' if stores else ('' if calls_restore else 'mos_object does not call a restore function stored on self'),
            fi.file, fi.node.lineno)


def handler_covers(res: CheckResult, prog: Program):
    fi = prog.func('MosCollection.merge')
    hier = ExcHier(prog)
    tries = [n for n in ast.walk(fi.node) if isinstance(n, ast.Try)]
    ok = False
    detail = 'no try/except around the merge step'
    for t in tries:
        for h in t.handlers:
            names = []
            if h.type is None:
                names = ['BaseException']
            else:
                for e in (h.type.elts if isinstance(h.type, ast.Tuple) else [h.type]):
                    names.append(e.attr if isinstance(e, ast.Attribute) else getattr(e, 'id', '?'))
            if any(hier.isa('MosMergeError', n) for n in names):
                ok = True
            else:
                detail = f'handler catches {names}, which does not cover MosMergeError'
    res.add('HANDLER-COVERS', fi.short, 'except clause around self._ro += mo', ok, '' if ok else detail, fi.file, fi.node.lineno)


# ----------------------------------------------------------------- helpers
def calls_in(node, pred):
    return [n for n in ast.walk(node) if isinstance(n, ast.Call) and pred(n)]


def attr_chain(e) -> str:
    try:
        return ast.unparse(e)
    except Exception:
        return ''


def const_str_dict(fi: FuncInfo):
    """dict displays inside a function whose values are plain names (class references)"""
    out = []
    for n in ast.walk(fi.node):
        if isinstance(n, ast.Dict) and n.keys and all(k is not None for k in n.keys):
            out.append(n)
    return out


# ------------------------------------------------------------------- C08
def tag_table(res: CheckResult, prog: Program, schema):
    """TAG-TABLE: keys of the tag->class table = documented elements; each class's base_tag_name literal = its key."""
    from .harness import base_tag_literal
    res.rules['TAG-TABLE'] = 'the tag -> class table of MosFile._classify has exactly the 16 documented message elements and maps each to the class whose base_tag_name is that tag'
    fi = prog.func('MosFile._classify')
    tables = [d for d in const_str_dict(fi) if all(isinstance(k, ast.Constant) and isinstance(k.value, str) for k in d.keys)]
    if not tables:
        res.error('TAG-TABLE: no tag -> class dict display found in MosFile._classify (idiom not recognised)')
        return
    d = max(tables, key=lambda t: len(t.keys))
    got = {}
    for k, v in zip(d.keys, d.values):
        got[k.value] = attr_chain(v)
    for tag, cname in schema.DOCUMENTED_TAGS.items():
        if tag not in got:
            res.add('TAG-TABLE', fi.short, f'{tag!r} -> {cname}', False, f'documented message element {tag} has no row', fi.file, d.lineno)
            continue
        ok = got[tag] == cname
        detail = '' if ok else f'{tag} is mapped to {got[tag]}, documentation says {cname}'
        if ok and cname in prog.classes:
            lit = base_tag_literal(None, prog.cls(cname))
            if lit != tag:
                ok, detail = False, f'{cname}.base_tag_name returns {lit!r} but the table key is {tag!r}'
        res.add('TAG-TABLE', fi.short, f'{tag!r} -> {cname}', ok, detail, fi.file, d.lineno)
    for tag in got:
        if tag not in schema.DOCUMENTED_TAGS:
            res.add('TAG-TABLE', fi.short, f'{tag!r} -> {got[tag]}', False, 'row for an undocumented message element', fi.file, d.lineno)
    # first match wins: roCreate must precede roDelete if a completed running order is to stay a RunningOrder
    keys = [k.value for k in d.keys]
    if 'roCreate' in keys and 'roDelete' in keys:
        res.add('TAG-TABLE', fi.short, 'roCreate is probed before roDelete', keys.index('roCreate') < keys.index('roDelete'),
                'roDelete is probed first: a written-out completed running order would be classified as RunningOrderEnd if nested elements were searched', fi.file, d.lineno)


def ea_table(res: CheckResult, prog: Program, schema):
    res.rules['EA-TABLE'] = 'the (operation, target has itemID, source has itemID) -> class table equals the MOS roElementAction table'
    fi = prog.func('ElementAction._classify')
    tables = [d for d in const_str_dict(fi) if all(isinstance(k, ast.Tuple) and len(k.elts) == 3 and all(isinstance(x, ast.Constant) for x in k.elts) for k in d.keys)]
    if not tables:
        res.error('EA-TABLE: no (operation, bool, bool) -> class dict display found in ElementAction._classify (idiom not recognised)')
        return
    d = tables[0]
    got = {tuple(x.value for x in k.elts): attr_chain(v) for k, v in zip(d.keys, d.values)}
    for key, cname in schema.EA_TABLE.items():
        ok = got.get(key) == cname
        res.add('EA-TABLE', fi.short, f'{key} -> {cname}', ok, '' if ok else f'table maps {key} to {got.get(key)}', fi.file, d.lineno)
    for key in got:
        if key not in schema.EA_TABLE:
            res.add('EA-TABLE', fi.short, f'{key} -> {got[key]}', False, 'row outside the MOS roElementAction table', fi.file, d.lineno)


def _ctor_shape(fi: FuncInfo):
    """Normalised body of a from_* constructor with the parse call and the argument name abstracted."""
    class N(ast.NodeTransformer):
        def __init__(self, params):
            self.params = params

        def visit_Name(self, n):
            if n.id in self.params:
                return ast.copy_location(ast.Name(id=f'ARG{self.params.index(n.id)}', ctx=n.ctx), n)
            return n

        def visit_Call(self, n):
            self.generic_visit(n)
            t = attr_chain(n.func)
            if t in ('ElementTree.fromstring', 'ElementTree.XML'):
                return ast.copy_location(ast.Name(id='PARSED_ROOT', ctx=ast.Load()), n)
            if t.endswith('.getroot') and isinstance(n.func, ast.Attribute) and isinstance(n.func.value, ast.Call) \
                    and attr_chain(n.func.value.func) == 'ElementTree.parse':
                return ast.copy_location(ast.Name(id='PARSED_ROOT', ctx=ast.Load()), n)
            return n
    params = [a.arg for a in fi.node.args.args[1:]]
    body = [s for s in fi.node.body if not (isinstance(s, ast.Expr) and isinstance(s.value, ast.Constant))]
    mod = ast.Module(body=[N(params).visit(ast.parse(ast.unparse(s)).body[0]) for s in body], type_ignores=[])
    return ast.unparse(mod)


def ctor_siblings(res: CheckResult, prog: Program):
    res.rules['CTOR-SIBLINGS'] = 'MosFile.from_file and from_string have the same shape (parse in try, ParseError -> MosInvalidXML, same dispatch); from_s3 delegates to from_string'
    f1, f2, f3 = prog.func('MosFile.from_file'), prog.func('MosFile.from_string'), prog.func('MosFile.from_s3')
    a, b = _ctor_shape(f1), _ctor_shape(f2)
    res.add('CTOR-SIBLINGS', 'MosFile.from_file/from_string', 'bodies equal modulo the parse call', a == b,
            '' if a == b else 'the file and string constructors differ beyond the parse call', f1.file, f1.node.lineno)
    deleg = calls_in(f3.node, lambda c: attr_chain(c.func) in ('cls.from_string', 'MosFile.from_string'))
    rets = [n for n in ast.walk(f3.node) if isinstance(n, ast.Return)]
    ok = bool(deleg) and all(isinstance(r.value, ast.Call) and attr_chain(r.value.func).endswith('.from_string') for r in rets)
    res.add('CTOR-SIBLINGS', f3.short, 'returns cls.from_string(<downloaded contents>)', ok,
            '' if ok else 'from_s3 does not delegate to from_string', f3.file, f3.node.lineno)


# ------------------------------------------------------------------- C07
def no_bypass(res: CheckResult, prog: Program):
    """NO-BYPASS: the only call of a MosFile-family merge(ro) is the dispatch in RunningOrder.__add__."""
    res.rules['NO-BYPASS'] = 'the only call site of <message>.merge(<running order>) is the dispatch inside RunningOrder.__add__, behind the completion guard'
    found = 0
    for fi in prog.all_functions():
        for c in calls_in(fi.node, lambda c: isinstance(c.func, ast.Attribute) and c.func.attr == 'merge' and len(c.args) == 1 and not c.keywords):
            found += 1
            ok = fi.short == 'RunningOrder.__add__'
            res.add('NO-BYPASS', fi.short, norm(c), ok, '' if ok else 'a merge is invoked without going through RunningOrder.__add__ (completion guard bypassed)',
                    fi.file, c.lineno)
    if not found:
        res.error('NO-BYPASS: the dispatch other.merge(self) was not found in RunningOrder.__add__ (anchor vanished)')


def marker_writers(res: CheckResult, prog: Program, marker: str):
    res.rules['MARKER-WRITER'] = 'only RunningOrderEnd.merge creates the completion marker element'
    n = 0
    for fi in prog.all_functions():
        for c in ast.walk(fi.node):
            if isinstance(c, ast.Constant) and c.value == marker:
                n += 1
                par_ok = fi.short in ('RunningOrderEnd.merge', 'RunningOrder.__add__', 'RunningOrder.completed')
                res.add('MARKER-WRITER', fi.short, f'use of the literal {marker!r}', par_ok,
                        '' if par_ok else f'{fi.short} mentions the completion marker: only RunningOrderEnd.merge may write it and __add__/completed read it',
                        fi.file, c.lineno)
    if n < 3:
        res.error(f'MARKER-WRITER: expected the marker literal {marker!r} in the writer and two readers, found {n} uses')


def detect_completed(res: CheckResult, prog: Program):
    res.rules['DETECT-PRINT'] = 'detect_file prints the class name, with "(completed)" exactly on the mo.completed branch'
    fi = prog.func('CLI.detect_file')
    ifs = [n for n in ast.walk(fi.node) if isinstance(n, ast.If)]
    ok = False
    detail = 'no branch on mo.completed found'
    for i in ifs:
        if attr_chain(i.test).endswith('.completed'):
            t = ' '.join(attr_chain(s) for s in i.body)
            e = ' '.join(attr_chain(s) for s in i.orelse)
            ok = '(completed)' in t and '(completed)' not in e and '__class__.__name__' in t and '__class__.__name__' in e
            detail = '' if ok else 'the (completed) suffix / class name is not printed on the right branch'
    res.add('DETECT-PRINT', fi.short, 'if mo.completed: print(... (completed))', ok, detail, fi.file, fi.node.lineno)


def serializer(res: CheckResult, prog: Program):
    n = 0
    for name in ('MosFile.__str__', 'MosElement.__str__'):
        fi = prog.func(name)
        rets = [r for r in ast.walk(fi.node) if isinstance(r, ast.Return) and r.value is not None]
        ok = len(rets) == 1 and isinstance(rets[0].value, ast.Call) and attr_chain(rets[0].value.func) == 'ElementTree.tostring' \
            and len(rets[0].value.args) == 1 and attr_chain(rets[0].value.args[0]) == 'self.xml' \
            and any(k.arg == 'encoding' and isinstance(k.value, ast.Constant) and k.value.value == 'unicode' for k in rets[0].value.keywords)
        res.add('SERIALIZER', fi.short, "return ElementTree.tostring(self.xml, encoding='unicode')", ok,
                '' if ok else 'the string form is not the plain ElementTree serialisation of self.xml', fi.file, fi.node.lineno)
        n += 1
    fi = prog.func('MosCollection.__str__')
    rets = [r for r in ast.walk(fi.node) if isinstance(r, ast.Return) and r.value is not None]
    ok = len(rets) == 1 and attr_chain(rets[0].value) in ('str(self.ro)', 'str(self._ro)')
    res.add('SERIALIZER', fi.short, 'return str(self.ro)', ok, '' if ok else 'the collection\'s string form is not str(self.ro)', fi.file, fi.node.lineno)
    others = []
    for f in prog.all_functions():
        for c in calls_in(f.node, lambda c: attr_chain(c.func).endswith('tostring') or attr_chain(c.func).endswith('.write') and 'ElementTree' in attr_chain(c.func)):
            if f.short not in ('MosFile.__str__', 'MosElement.__str__'):
                others.append(f'{f.short}: {norm(c)}')
    res.add('SERIALIZER', 'package', 'no other serializer', not others, '' if not others else f'other serialisation sites: {others}')
