"""shape: structural rules over single functions (DESIGN §4 C07, C09, C10, C11, C14, C18, C19)."""
from __future__ import annotations

import ast
from typing import List, Optional

from .exchier import ExcHier
from .front import AnalysisError, FuncInfo, Program, norm
from .report import CheckResult


def fresh_read(res: CheckResult, prog: Program):
    """FRESH-READ / NO-MEMO: MosReader.mos_object re-creates the message on every access and stores nothing."""
    res.rules['FRESH-READ'] = 'MosReader.mos_object calls the restore function on every access and stores nothing on self'
    fi = prog.func('MosReader.mos_object')
    stores = [n for n in ast.walk(fi.node) if isinstance(n, (ast.Assign, ast.AugAssign, ast.AnnAssign))
              and any(isinstance(t, ast.Attribute) for t in (n.targets if isinstance(n, ast.Assign) else [n.target]))]
    rets = [n for n in ast.walk(fi.node) if isinstance(n, ast.Return) and n.value is not None]
    calls_restore = all(isinstance(r.value, ast.Call) and isinstance(r.value.func, ast.Attribute)
                        and isinstance(r.value.func.value, ast.Name) and r.value.func.value.id == 'self' for r in rets) and bool(rets)
    res.add('FRESH-READ', fi.short, 'return self.<restore>(*args) without caching', not stores and calls_restore,
            'the message object is cached on the reader' if stores else ('' if calls_restore else 'mos_object does not call a restore function stored on self'),
            fi.file, fi.node.lineno)


def handler_covers(res: CheckResult, prog: Program):
    fi = prog.func('MosCollection.merge')
    hier = ExcHier(prog)
    tries = [n for n in ast.walk(fi.node) if isinstance(n, ast.Try)]
    ok = False
    detail = 'no try/except around the merge step'
    for t in tries:
        for h in t.handlers:
            names = []
            if h.type is None:
                names = ['BaseException']
            else:
                for e in (h.type.elts if isinstance(h.type, ast.Tuple) else [h.type]):
                    names.append(e.attr if isinstance(e, ast.Attribute) else getattr(e, 'id', '?'))
            if any(hier.isa('MosMergeError', n) for n in names):
                ok = True
            else:
                detail = f'handler catches {names}, which does not cover MosMergeError'
    res.add('HANDLER-COVERS', fi.short, 'except clause around self._ro += mo', ok, '' if ok else detail, fi.file, fi.node.lineno)
