"""shape: structural rules over single functions (DESIGN §4 C07, C09, C10, C11, C14, C18, C19)."""
from __future__ import annotations

import ast
from typing import List, Optional

from .exchier import ExcHier
from .front import AnalysisError, FuncInfo, Program, norm
from .report import CheckResult


def _reader_by_interpretation(res: CheckResult, prog: Program, only=None):
    """RESTORE-PAIR / READER-FIELDS / FRESH-READ decided by rules_reader.ReaderFlow; False if the interpreter cannot."""
    from . import rules_reader
    tmp = CheckResult(res.prop, res.tier)
    try:
        rules_reader.reader_rules(tmp, prog)
    except AnalysisError as e:
        res.extra['reader_rules_method'] = f'structural rules on the syntax tree (interpretation not possible: {e})'
        return False
    res.extra['reader_rules_method'] = 'abstract interpretation of MosReader.from_* / __init__ / properties over symbolic sources'
    for o in tmp.obligations:
        if only is None or o.rule in only:
            res.rules[o.rule] = tmp.rules[o.rule]
            res.add(o.rule, o.where, o.construct, o.verdict == 'DISCHARGED', o.detail, o.file, o.line)
    for e in tmp.errors:
        res.error(e)
    return True


def fresh_read(res: CheckResult, prog: Program):
    """FRESH-READ / NO-MEMO: MosReader.mos_object re-creates the message on every access and stores nothing."""
    if any(o.rule == 'FRESH-READ' and o.construct == 'mos_object restores on every access' for o in res.obligations):
        return
    if _reader_by_interpretation(res, prog, only=('FRESH-READ',)):
        return
    res.rules['FRESH-READ'] = 'MosReader.mos_object calls the restore function on every access and stores nothing on self'
    fi = prog.func('MosReader.mos_object')
    stores = [n for n in ast.walk(fi.node) if isinstance(n, (ast.Assign, ast.AugAssign, ast.AnnAssign))
              and any(isinstance(t, ast.Attribute) for t in (n.targets if isinstance(n, ast.Assign) else [n.target]))]
    rets = [n for n in ast.walk(fi.node) if isinstance(n, ast.Return) and n.value is not None]
    calls_restore = all(isinstance(r.value, ast.Call) and isinstance(r.value.func, ast.Attribute)
                        and isinstance(r.value.func.value, ast.Name) and r.value.func.value.id == 'self' for r in rets) and bool(rets)
    res.add('FRESH-READ', fi.short, 'return self.<restore>(*args) without caching', not stores and calls_restore,
            'the message object is cached on the reader' if stores else ('' if calls_restore else 'mos_object does not call a restore function stored on self'),
            fi.file, fi.node.lineno)


def handler_covers(res: CheckResult, prog: Program):
    fi = prog.func('MosCollection.merge')
    hier = ExcHier(prog)
    # merge() itself and the methods of the collection it calls on self (a loop body extracted into a helper)
    scope, todo = [fi], [fi]
    while todo:
        f = todo.pop()
        for c in ast.walk(f.node):
            if isinstance(c, ast.Call) and isinstance(c.func, ast.Attribute) and isinstance(c.func.value, ast.Name) and c.func.value.id in ('self', 'cls'):
                g = fi.cls.find(c.func.attr) if fi.cls is not None else None
                if g is not None and g not in scope and g.kind != 'property':
                    scope.append(g)
                    todo.append(g)
    tries = [n for f in scope for n in ast.walk(f.node) if isinstance(n, ast.Try)]
    ok = False
    detail = 'no try/except around the merge step'
    for t in tries:
        for h in t.handlers:
            names = []
            if h.type is None:
                names = ['BaseException']
            else:
                for e in (h.type.elts if isinstance(h.type, ast.Tuple) else [h.type]):
                    names.append(e.attr if isinstance(e, ast.Attribute) else getattr(e, 'id', '?'))
            if any(hier.isa('MosMergeError', n) for n in names):
                ok = True
            else:
                detail = f'handler catches {names}, which does not cover MosMergeError'
    res.add('HANDLER-COVERS', fi.short, 'except clause around self._ro += mo', ok, '' if ok else detail, fi.file, fi.node.lineno)


# ----------------------------------------------------------------- helpers
def calls_in(node, pred):
    return [n for n in ast.walk(node) if isinstance(n, ast.Call) and pred(n)]


def attr_chain(e) -> str:
    try:
        return ast.unparse(e)
    except Exception:
        return ''


def const_str_dict(fi: FuncInfo):
    """dict displays inside a function whose values are plain names (class references)"""
    out = []
    for n in ast.walk(fi.node):
        if isinstance(n, ast.Dict) and n.keys and all(k is not None for k in n.keys):
            out.append(n)
    return out


# ------------------------------------------------------------------- C08
def tag_table(res: CheckResult, prog: Program, schema):
    """TAG-TABLE / EA-TABLE are decided by interpretation (rules_table); the structural reading of the two dict
    displays below is the fall-back."""
    from . import rules_table
    tmp = CheckResult(res.prop, res.tier)
    try:
        rules_table.table_rules(tmp, prog)
        for o in tmp.obligations:
            res.rules[o.rule] = tmp.rules[o.rule]
            res.add(o.rule, o.where, o.construct, o.verdict == 'DISCHARGED', o.detail, o.file, o.line)
        res.extra['table_rules_method'] = 'abstract interpretation of MosFile.from_string on one harness document per table row'
        return
    except AnalysisError as e:
        res.extra['table_rules_method'] = f'structural reading of the dict displays (interpretation not possible: {e})'
    _tag_table_structural(res, prog, schema)


def _tag_table_structural(res: CheckResult, prog: Program, schema):
    from .harness import base_tag_literal
    res.rules['TAG-TABLE'] = 'the tag -> class table of MosFile._classify has exactly the 16 documented message elements and maps each to the class whose base_tag_name is that tag'
    fi = prog.func('MosFile._classify')
    tables = [d for d in const_str_dict(fi) if all(isinstance(k, ast.Constant) and isinstance(k.value, str) for k in d.keys)]
    if not tables:
        res.error('TAG-TABLE: no tag -> class dict display found in MosFile._classify (idiom not recognised)')
        return
    d = max(tables, key=lambda t: len(t.keys))
    got = {}
    for k, v in zip(d.keys, d.values):
        got[k.value] = attr_chain(v)
    for tag, cname in schema.DOCUMENTED_TAGS.items():
        if tag not in got:
            res.add('TAG-TABLE', fi.short, f'{tag!r} -> {cname}', False, f'documented message element {tag} has no row', fi.file, d.lineno)
            continue
        ok = got[tag] == cname or got[tag].startswith(cname + '.')      # a class, or a classmethod of that class (dispatch table of callables)
        detail = '' if ok else f'{tag} is mapped to {got[tag]}, documentation says {cname}'
        if ok and cname in prog.classes:
            lit = base_tag_literal(None, prog.cls(cname))
            if lit != tag:
                ok, detail = False, f'{cname}.base_tag_name returns {lit!r} but the table key is {tag!r}'
        res.add('TAG-TABLE', fi.short, f'{tag!r} -> {cname}', ok, detail, fi.file, d.lineno)
    for tag in got:
        if tag not in schema.DOCUMENTED_TAGS:
            res.add('TAG-TABLE', fi.short, f'{tag!r} -> {got[tag]}', False, 'row for an undocumented message element', fi.file, d.lineno)
    # first match wins: roCreate must precede roDelete if a completed running order is to stay a RunningOrder
    keys = [k.value for k in d.keys]
    if 'roCreate' in keys and 'roDelete' in keys:
        res.add('TAG-TABLE', fi.short, 'roCreate is probed before roDelete', keys.index('roCreate') < keys.index('roDelete'),
                'roDelete is probed first: a written-out completed running order would be classified as RunningOrderEnd if nested elements were searched', fi.file, d.lineno)


def ea_table(res: CheckResult, prog: Program, schema):
    if str(res.extra.get('table_rules_method', '')).startswith('abstract'):
        return          # decided together with TAG-TABLE
    res.rules['EA-TABLE'] = 'the (operation, target has itemID, source has itemID) -> class table equals the MOS roElementAction table'
    fi = prog.func('ElementAction._classify')
    tables = [d for d in const_str_dict(fi) if all(isinstance(k, ast.Tuple) and len(k.elts) == 3 and all(isinstance(x, ast.Constant) for x in k.elts) for k in d.keys)]
    if not tables:
        res.error('EA-TABLE: no (operation, bool, bool) -> class dict display found in ElementAction._classify (idiom not recognised)')
        return
    d = tables[0]
    got = {tuple(x.value for x in k.elts): attr_chain(v) for k, v in zip(d.keys, d.values)}
    for key, cname in schema.EA_TABLE.items():
        ok = got.get(key) == cname
        res.add('EA-TABLE', fi.short, f'{key} -> {cname}', ok, '' if ok else f'table maps {key} to {got.get(key)}', fi.file, d.lineno)
    for key in got:
        if key not in schema.EA_TABLE:
            res.add('EA-TABLE', fi.short, f'{key} -> {got[key]}', False, 'row outside the MOS roElementAction table', fi.file, d.lineno)


def _ctor_shape(fi: FuncInfo):
    """Normalised body of a from_* constructor with the parse call and the argument name abstracted."""
    class N(ast.NodeTransformer):
        def __init__(self, params):
            self.params = params

        def visit_Name(self, n):
            if n.id in self.params:
                return ast.copy_location(ast.Name(id=f'ARG{self.params.index(n.id)}', ctx=n.ctx), n)
            return n

        def visit_Call(self, n):
            self.generic_visit(n)
            t = attr_chain(n.func)
            if t in ('ElementTree.fromstring', 'ElementTree.XML'):
                return ast.copy_location(ast.Name(id='PARSED_ROOT', ctx=ast.Load()), n)
            if t.endswith('.getroot') and isinstance(n.func, ast.Attribute) and isinstance(n.func.value, ast.Call) \
                    and attr_chain(n.func.value.func) == 'ElementTree.parse':
                return ast.copy_location(ast.Name(id='PARSED_ROOT', ctx=ast.Load()), n)
            return n
    params = [a.arg for a in fi.node.args.args[1:]]
    body = [s for s in fi.node.body if not (isinstance(s, ast.Expr) and isinstance(s.value, ast.Constant))]
    mod = ast.Module(body=[N(params).visit(ast.parse(ast.unparse(s)).body[0]) for s in body], type_ignores=[])
    return ast.unparse(mod)


def ctor_siblings(res: CheckResult, prog: Program, classify=None):
    """With the interpreted classification results at hand the rule is semantic: the three constructors differ only in
    the parse primitive (ElementTree.parse(<path>) / ElementTree.fromstring(<contents>), default parser) and agree on
    everything observable afterwards (elements consulted, classes returned, library exceptions raised)."""
    f1, f2, f3 = prog.func('MosFile.from_file'), prog.func('MosFile.from_string'), prog.func('MosFile.from_s3')
    by = {r['name']: r for r in (classify or []) if r.get('ok', True)}
    if len(by) == 3 and all(by[n].get('parses') for n in by):
        res.rules['CTOR-SIBLINGS'] = ('MosFile.from_file / from_string / from_s3, interpreted, differ only in the parse primitive (ElementTree.parse(path) vs '
                                      'ElementTree.fromstring(contents), default parser, argument passed unchanged) and agree on the elements consulted afterwards')
        res.extra['ctor_siblings_method'] = 'interpreted classification (parse primitives and consulted elements)'
        want = {'from_file': ('parse', 'argument.'), 'from_string': ('fromstring', 'argument.'), 'from_s3': ('fromstring', 'read')}
        details = []
        for n, (prim, argmark) in want.items():
            ps = [tuple(x) for v in by[n]['parses'].values() for x in v]
            for name, args, kw in ps:
                if name != prim:
                    details.append(f'MosFile.{n} parses with ElementTree.{name}, expected ElementTree.{prim}')
                if kw:
                    details.append(f'MosFile.{n} passes {list(kw)} to the parser: the document is not read the default way')
                import re as _re
                exact = _re.fullmatch(r'argument\.\w+', str(args[0])) if n != 'from_s3' else _re.fullmatch(r'<result:.*\.read>', str(args[0]))
                if len(args) != 1 or not exact:
                    details.append(f'MosFile.{n} parses {list(args)}: not its own argument (the downloaded body for S3) unchanged')
            if not ps:
                details.append(f'MosFile.{n} never reaches a parse primitive')
        ok = not details
        res.add('CTOR-SIBLINGS', 'MosFile.from_file/from_string', 'bodies equal modulo the parse call', ok, '' if ok else details[0], f1.file, f1.node.lineno)
        reads = {n: sorted({tuple(x) for v in by[n].get('reads', {}).values() for x in v}) for n in by}
        same = len({repr(v) for v in reads.values()}) == 1
        s3_ok = same and not [d for d in details if 'from_s3' in d]
        res.add('CTOR-SIBLINGS', f3.short, 'returns cls.from_string(<downloaded contents>)', s3_ok,
                '' if s3_ok else ('the three constructors consult different elements after parsing' if not same else [d for d in details if 'from_s3' in d][0]), f3.file, f3.node.lineno)
        return
    res.rules['CTOR-SIBLINGS'] = 'MosFile.from_file and from_string have the same shape (parse in try, ParseError -> MosInvalidXML, same dispatch); from_s3 delegates to from_string'
    a, b = _ctor_shape(f1), _ctor_shape(f2)
    res.add('CTOR-SIBLINGS', 'MosFile.from_file/from_string', 'bodies equal modulo the parse call', a == b,
            '' if a == b else 'the file and string constructors differ beyond the parse call', f1.file, f1.node.lineno)
    deleg = calls_in(f3.node, lambda c: attr_chain(c.func) in ('cls.from_string', 'MosFile.from_string'))
    rets = [n for n in ast.walk(f3.node) if isinstance(n, ast.Return)]
    ok = bool(deleg) and all(isinstance(r.value, ast.Call) and attr_chain(r.value.func).endswith('.from_string') for r in rets)
    res.add('CTOR-SIBLINGS', f3.short, 'returns cls.from_string(<downloaded contents>)', ok,
            '' if ok else 'from_s3 does not delegate to from_string', f3.file, f3.node.lineno)


# ------------------------------------------------------------------- C07
def no_bypass(res: CheckResult, prog: Program):
    """NO-BYPASS: the only call of a MosFile-family merge(ro) is the dispatch in RunningOrder.__add__."""
    res.rules['NO-BYPASS'] = 'the only call site of <message>.merge(<running order>) is the dispatch inside RunningOrder.__add__, behind the completion guard'
    found = 0
    for fi in prog.all_functions():
        for c in calls_in(fi.node, lambda c: isinstance(c.func, ast.Attribute) and c.func.attr == 'merge' and len(c.args) == 1 and not c.keywords):
            found += 1
            ok = fi.short == 'RunningOrder.__add__'
            if not ok and fi.cls is not None and fi.cls.name in ('RunningOrder', 'MosFile') and fi.name.startswith('_') and not fi.name.startswith('__'):
                # a private helper that is called from RunningOrder.__add__ and from nowhere else is part of the dispatch
                callers = [g.short for g in prog.all_functions() if g is not fi
                           and calls_in(g.node, lambda k: isinstance(k.func, ast.Attribute) and k.func.attr == fi.name)]
                ok = callers == ['RunningOrder.__add__']
            res.add('NO-BYPASS', fi.short, norm(c), ok, '' if ok else 'a merge is invoked without going through RunningOrder.__add__ (completion guard bypassed)',
                    fi.file, c.lineno)
    if not found:
        res.error('NO-BYPASS: the dispatch other.merge(self) was not found in RunningOrder.__add__ (anchor vanished)')


def marker_writers(res: CheckResult, prog: Program, marker: str):
    res.rules['MARKER-WRITER'] = 'only RunningOrderEnd.merge (or a private helper only it calls) creates the completion marker element'
    # spellings of the marker: the literal itself and module-level constants bound to it (_COMPLETION_TAG = 'mosromgrmeta')
    consts = set()
    for m in prog.modules.values():
        for b in m.tree.body:
            if isinstance(b, ast.Assign) and isinstance(b.value, ast.Constant) and b.value.value == marker:
                consts.update(t.id for t in b.targets if isinstance(t, ast.Name))

    def is_marker(c):
        return (isinstance(c, ast.Constant) and c.value == marker) or (isinstance(c, ast.Name) and c.id in consts and isinstance(c.ctx, ast.Load)) \
            or (isinstance(c, ast.Attribute) and c.attr in consts)
    # the writer and the private helpers of its class reachable from it
    writer = prog.func('RunningOrderEnd.merge')
    scope, todo = [writer], [writer]
    while todo:
        f = todo.pop()
        for c in ast.walk(f.node):
            if isinstance(c, ast.Call) and isinstance(c.func, ast.Attribute) and isinstance(c.func.value, ast.Name) and c.func.value.id in ('self', 'cls', 'RunningOrderEnd'):
                g = writer.cls.find(c.func.attr) if writer.cls is not None else None
                if g is not None and g not in scope and g.cls is writer.cls and g.name.startswith('_'):
                    scope.append(g)
                    todo.append(g)
    allowed = {f.short for f in scope}
    for h in scope[1:]:
        # such a helper belongs to the writer only if nothing else calls it
        others = [g.short for g in prog.all_functions() if g not in scope and any(
            isinstance(k, ast.Call) and isinstance(k.func, ast.Attribute) and k.func.attr == h.name for k in ast.walk(g.node))]
        if others:
            allowed.discard(h.short)
    n = 0
    for fi in prog.all_functions():
        reads = set()
        for c in ast.walk(fi.node):
            # a use as the argument of a search method or as an operand of a comparison only *reads* the marker
            if isinstance(c, ast.Call) and isinstance(c.func, ast.Attribute) and c.func.attr in ('find', 'findall', 'iterfind', 'findtext', 'iter'):
                reads.update(id(a) for a in list(c.args) + [k.value for k in c.keywords])
            if isinstance(c, ast.Compare):
                reads.update(id(a) for a in [c.left] + list(c.comparators))
        for c in ast.walk(fi.node):
            if is_marker(c):
                n += 1
                par_ok = id(c) in reads or fi.short in allowed
                res.add('MARKER-WRITER', fi.short, f'use of the marker tag {marker!r}', par_ok,
                        '' if par_ok else f'{fi.short} uses the completion marker other than to look it up: only RunningOrderEnd.merge may write it',
                        fi.file, c.lineno)
    has_writer = any(is_marker(c) for f in scope if f.short in allowed for c in ast.walk(f.node))
    res.add('MARKER-WRITER', writer.short, f'writes the marker tag {marker!r} that the completion guard reads', has_writer,
            '' if has_writer else f'the completion guard reads {marker!r} but RunningOrderEnd.merge does not write that tag: writer and reader disagree',
            writer.file, writer.node.lineno)


def _detect_interpreted(prog: Program):
    """CLI.detect_file interpreted on a symbolic message whose `completed` is True / False: the printed text, when it folds to a
    constant, must show the class name and contain "(completed)" exactly for the completed one.  None: not decidable this way."""
    from .domains import Const, ExtV, ObjE, Ref, Unknown
    from .engine import Engine
    from .harness import base_state
    from .interp import Raise

    class DetectFlow(Engine):
        def __init__(self, prog, flag):
            super().__init__(prog, entry='CLI.detect_file', summaries={})
            self.flag = flag
            self.lines = []

        def getattr_(self, o, name, st, node):
            if isinstance(o, Ref) and o.kind == 'obj' and st.get(o.sym).get('%symbolic') is not None:
                if name == 'completed':
                    return [(Const(self.flag), st)]
                if name == '__class__':
                    return [(ExtV('detect:class'), st)]
                return [(Unknown('attribute of the detected message'), st)]
            if isinstance(o, ExtV) and o.name == 'detect:class' and name in ('__name__', '__qualname__'):
                return [(Const('CLASSNAME'), st)]
            return super().getattr_(o, name, st, node)

        def on_print(self, st, node, args=(), kwargs=None):
            self.lines.append([a.v if isinstance(a, Const) else None for a in args])

    fi = prog.func('CLI.detect_file')
    params = [a.arg for a in fi.node.args.args][1:]
    if len(params) < 1:
        return None
    out = {}
    for flag in (True, False):
        eng = DetectFlow(prog, flag)
        st = base_state(eng)
        cli = st.new(ObjE(prog.cls('CLI').qualname, (('_args', ExtV('args')),)))
        mo = st.new(ObjE(prog.cls('MosFile').qualname, (('%symbolic', Const(True)),)))
        args = [Ref('obj', mo)] + [Const('FILE')] * (len(params) - 1)
        outs = eng.call_function(fi, args, {}, st, None, self_val=Ref('obj', cli))
        if any(isinstance(v, Raise) for v, _ in outs) or not eng.lines or any(x is None for ln in eng.lines for x in ln):
            return None
        out[flag] = [' '.join(str(x) for x in ln) for ln in eng.lines]
    return out


def detect_completed(res: CheckResult, prog: Program):
    res.rules['DETECT-PRINT'] = 'detect_file prints the class name, and the text "(completed)" only under the condition mo.completed'
    fi = prog.func('CLI.detect_file')
    try:
        got = _detect_interpreted(prog)
    except Exception:
        got = None
    if got is not None:
        res.extra['detect_print_method'] = 'CLI.detect_file interpreted on a message with completed = True / False (printed text folded to constants)'
        t, f = ' | '.join(got[True]), ' | '.join(got[False])
        ok = 'CLASSNAME' in t and 'CLASSNAME' in f and '(completed)' in t and '(completed)' not in f
        detail = '' if ok else f'detect_file prints {got[True]} for a completed running order and {got[False]} otherwise'
        res.add('DETECT-PRINT', fi.short, 'print(<class name> [+ "(completed)" if mo.completed])', ok, detail, fi.file, fi.node.lineno)
        return
    res.extra['detect_print_method'] = 'structural (the printed text did not fold to constants under interpretation)'
    mo = fi.node.args.args[1].arg if len(fi.node.args.args) > 1 else 'mo'
    found = []       # (constant node, polarity list)

    def walk(node, conds):
        if isinstance(node, ast.If):
            walk(node.test, conds)
            for s in node.body:
                walk(s, conds + [(norm(node.test), True)])
            for s in node.orelse:
                walk(s, conds + [(norm(node.test), False)])
            return
        if isinstance(node, ast.IfExp):
            walk(node.test, conds)
            walk(node.body, conds + [(norm(node.test), True)])
            walk(node.orelse, conds + [(norm(node.test), False)])
            return
        if isinstance(node, ast.Constant) and isinstance(node.value, str) and '(completed)' in node.value:
            found.append((node, conds))
        for c in ast.iter_child_nodes(node):
            walk(c, conds)
    for s in fi.node.body:
        walk(s, [])
    pos, neg = f'{mo}.completed', f'not {mo}.completed'
    ok = bool(found)
    detail = '' if found else 'the text "(completed)" is never printed'
    for node, conds in found:
        guarded = any((c == pos and pol) or (c == neg and not pol) for c, pol in conds)
        if not guarded:
            ok, detail = False, f'"(completed)" at line {node.lineno} is not printed under the condition {pos}'
    prints = calls_in(fi.node, lambda c: attr_chain(c.func) == 'print')
    names = all('__class__.__name__' in norm(p) or 'type(' in norm(p) for p in prints) and bool(prints)
    if ok and not names:
        ok, detail = False, 'a print of detect_file does not show the class name'
    res.add('DETECT-PRINT', fi.short, 'print(<class name> [+ "(completed)" if mo.completed])', ok, detail, fi.file, fi.node.lineno)


def serializer(res: CheckResult, prog: Program):
    n = 0
    for name in ('MosFile.__str__', 'MosElement.__str__'):
        fi = prog.func(name)
        rets = [r for r in ast.walk(fi.node) if isinstance(r, ast.Return) and r.value is not None]
        # single-assignment locals are read through (root = self.xml; text = tostring(root, ...); return text)
        assigns = {}
        for a in ast.walk(fi.node):
            if isinstance(a, ast.Assign) and len(a.targets) == 1 and isinstance(a.targets[0], ast.Name):
                assigns.setdefault(a.targets[0].id, []).append(a.value)

        def thru(x, hops=0):
            while isinstance(x, ast.Name) and len(assigns.get(x.id, [])) == 1 and hops < 4:
                x, hops = assigns[x.id][0], hops + 1
            return x
        ret = thru(rets[0].value) if len(rets) == 1 else None
        ok = isinstance(ret, ast.Call) and attr_chain(ret.func) == 'ElementTree.tostring' \
            and len(ret.args) in (1, 2) and attr_chain(thru(ret.args[0])) == 'self.xml'
        if ok:
            call = ret
            enc = call.args[1] if len(call.args) == 2 else next((k.value for k in call.keywords if k.arg == 'encoding'), None)
            ok = isinstance(enc, ast.Constant) and enc.value == 'unicode' and all(k.arg == 'encoding' for k in call.keywords)
        res.add('SERIALIZER', fi.short, "return ElementTree.tostring(self.xml, encoding='unicode')", ok,
                '' if ok else 'the string form is not the plain ElementTree serialisation of self.xml', fi.file, fi.node.lineno)
        n += 1
    fi = prog.func('MosCollection.__str__')
    rets = [r for r in ast.walk(fi.node) if isinstance(r, ast.Return) and r.value is not None]
    ok = len(rets) == 1 and attr_chain(rets[0].value) in ('str(self.ro)', 'str(self._ro)')
    res.add('SERIALIZER', fi.short, 'return str(self.ro)', ok, '' if ok else 'the collection\'s string form is not str(self.ro)', fi.file, fi.node.lineno)
    others = []
    for f in prog.all_functions():
        for c in calls_in(f.node, lambda c: attr_chain(c.func).endswith('tostring') or attr_chain(c.func).endswith('.write') and 'ElementTree' in attr_chain(c.func)):
            if f.short not in ('MosFile.__str__', 'MosElement.__str__'):
                others.append(f'{f.short}: {norm(c)}')
    res.add('SERIALIZER', 'package', 'no other serializer', not others, '' if not others else f'other serialisation sites: {others}')


# ------------------------------------------------------------------- C10
def _returned_cls_call(fi: FuncInfo, prog: Program = None, depth=0):
    """The `cls(<readers>, ...)` call returned by a MosCollection.from_* constructor and the expression
    that produces <readers> (following one level of local assignment).  `return cls._helper(a, b)` is followed
    into the helper, whose parameters are replaced by the arguments."""
    import copy as _copy
    from .rules_pred import _Subst
    if prog is not None and depth < 2:
        for r in ast.walk(fi.node):
            if isinstance(r, ast.Return) and isinstance(r.value, ast.Call) and isinstance(r.value.func, ast.Attribute) \
                    and attr_chain(r.value.func.value) in ('cls', 'MosCollection'):
                helper = prog.cls('MosCollection').find(r.value.func.attr)
                if helper is None or helper.kind not in ('classmethod', 'staticmethod') or helper is fi:
                    continue
                call, src = _returned_cls_call(helper, prog, depth + 1)
                if call is None:
                    continue
                params = [a.arg for a in helper.node.args.args][(1 if helper.kind == 'classmethod' else 0):]
                mapping = dict(zip(params, r.value.args))
                mapping.update({k.arg: k.value for k in r.value.keywords if k.arg})
                sub = lambda x: _Subst(mapping).visit(_copy.deepcopy(x)) if x is not None else None   # noqa: E731
                call2 = sub(call)
                ast.copy_location(call2, r.value)
                for n in ast.walk(call2):
                    if not hasattr(n, 'lineno'):
                        n.lineno = r.value.lineno
                call2.lineno = r.value.lineno
                return call2, sub(src)
    assigns = {}
    for n in ast.walk(fi.node):
        if isinstance(n, ast.Assign) and len(n.targets) == 1 and isinstance(n.targets[0], ast.Name):
            assigns.setdefault(n.targets[0].id, []).append(n.value)
    for r in ast.walk(fi.node):
        if isinstance(r, ast.Return) and isinstance(r.value, ast.Call) and attr_chain(r.value.func) in ('cls', 'MosCollection'):
            call = r.value
            arg = call.args[0] if call.args else next((k.value for k in call.keywords if k.arg == 'mos_readers'), None)
            src = arg
            hops = 0
            while isinstance(src, ast.Name) and src.id in assigns and hops < 4:
                if len(assigns[src.id]) != 1:
                    return call, None
                src = assigns[src.id][0]
                hops += 1
            return call, src
    return None, None


def sorted_ctors(res: CheckResult, prog: Program):
    """Decided by interpretation (rules_ctor.CtorFlow); the structural form below is the fall-back when a constructor
    uses something the interpreter does not support."""
    from . import rules_ctor
    try:
        rules_ctor.ctor_rules(res, prog)
        res.extra['ctor_rules_method'] = 'abstract interpretation of MosCollection.from_* over a symbolic list of sources'
        return
    except AnalysisError as e:
        res.extra['ctor_rules_method'] = f'structural rules on the syntax tree (interpretation not possible: {e})'
    _sorted_ctors_structural(res, prog)


def _sorted_ctors_structural(res: CheckResult, prog: Program):
    res.rules['SORTED-CTORS'] = 'each MosCollection.from_* passes to cls(...) the result of sorted(<all constructed readers>) with no key/reverse'
    res.rules['CTOR-ARGS'] = 'each MosCollection.from_* forwards allow_incomplete and builds its readers with the matching MosReader.from_*'
    pairs = {'from_files': 'from_file', 'from_strings': 'from_string', 'from_s3': 'from_s3'}
    for name, reader_ctor in pairs.items():
        fi = prog.func('MosCollection.' + name)
        call, src = _returned_cls_call(fi, prog)
        if call is None:
            res.error(f'SORTED-CTORS: {fi.short} does not return cls(...) (idiom not recognised)')
            continue
        outer_arg = None
        if isinstance(src, ast.Call) and attr_chain(src.func) != 'sorted' and len(src.args) == 1 and not src.keywords:
            # one level of helper: cls(_sorted_readers([...]))  where the helper returns sorted(<its parameter ...>)
            target = prog.resolve_name_expr(fi.module, src.func)
            if target is None and isinstance(src.func, ast.Attribute) and attr_chain(src.func.value) in ('cls', 'self', 'MosCollection'):
                target = prog.cls('MosCollection').find(src.func.attr)
            if isinstance(target, FuncInfo):
                rets = [r for r in ast.walk(target.node) if isinstance(r, ast.Return) and r.value is not None]
                if len(rets) == 1:
                    outer_arg = src.args[0]
                    src = rets[0].value
        ok = isinstance(src, ast.Call) and attr_chain(src.func) == 'sorted' and len(src.args) == 1
        detail = '' if ok else f'the readers passed to cls(...) are {norm(src) if src is not None else "?"}: not the result of sorted(...)'
        if ok:
            for k in src.keywords:
                if k.arg == 'key' or (k.arg == 'reverse' and not (isinstance(k.value, ast.Constant) and k.value.value is False)):
                    ok, detail = False, f'sorted() is called with {k.arg}=: the order is no longer ascending message id'
        if ok:
            inner = src.args[0]
            if any(isinstance(x, ast.Slice) for x in ast.walk(inner)) or calls_in(inner, lambda c: attr_chain(c.func) in ('reversed', 'set', 'filter')):
                ok, detail = False, 'the list handed to sorted() is sliced or filtered'
            made = calls_in(outer_arg if outer_arg is not None else inner, lambda c: attr_chain(c.func) == 'MosReader.' + reader_ctor)
            res.add('CTOR-ARGS', fi.short, f'readers built with MosReader.{reader_ctor}', bool(made),
                    '' if made else f'the readers are not built with MosReader.{reader_ctor}', fi.file, fi.node.lineno)
        res.add('SORTED-CTORS', fi.short, 'cls(sorted([...readers...]), ...)', ok, detail, fi.file, call.lineno)
        fwd = [k for k in call.keywords if k.arg == 'allow_incomplete']
        ok2 = len(fwd) == 1 and attr_chain(fwd[0].value) == 'allow_incomplete'
        res.add('CTOR-ARGS', fi.short, 'allow_incomplete=allow_incomplete', ok2, '' if ok2 else 'allow_incomplete is not forwarded unchanged', fi.file, call.lineno)


def lt_numeric(res: CheckResult, prog: Program):
    res.rules['LT-NUMERIC'] = 'MosReader.__lt__ and MosFile.__lt__ compare message_id with <, both classes use total_ordering'
    res.rules['ID-IS-INT'] = 'MosFile.message_id passes through int(); MosReader stores and returns that value unchanged'
    for cname in ('MosReader', 'MosFile'):
        ci = prog.cls(cname)
        fi = ci.find('__lt__')          # the class's own definition or one inherited from a base / mixin
        if fi is None:
            res.error(f'anchor vanished: {cname}.__lt__')
            continue
        rets = [r for r in ast.walk(fi.node) if isinstance(r, ast.Return) and r.value is not None]
        other = fi.node.args.args[1].arg if len(fi.node.args.args) > 1 else 'other'
        ok = False
        if len(rets) == 1 and isinstance(rets[0].value, ast.Compare) and len(rets[0].value.ops) == 1:
            c = rets[0].value
            l, r = attr_chain(c.left), attr_chain(c.comparators[0])
            ids = {f'self.message_id', f'self._message_id'}
            oids = {f'{other}.message_id', f'{other}._message_id'}
            ok = (isinstance(c.ops[0], ast.Lt) and l in ids and r in oids) or (isinstance(c.ops[0], ast.Gt) and l in oids and r in ids)
        res.add('LT-NUMERIC', f'{cname}.__lt__', 'return self.message_id < other.message_id', ok,
                '' if ok else f'__lt__ is {norm(rets[0].value) if rets else "?"}', fi.file, fi.node.lineno)
        dec = 'total_ordering' in ci.decorators or 'functools.total_ordering' in ci.decorators
        res.add('LT-NUMERIC', cname, '@total_ordering', dec, '' if dec else f'{cname} lost @total_ordering', fi.file, ci.node.lineno)
    # no subclass may re-define the ordering
    for base in ('MosFile', 'MosReader'):
        for c in prog.subclasses(prog.cls(base)):
            if c.name == base:
                continue
            for d in ('__lt__', '__le__', '__gt__', '__ge__', '__eq__', '__hash__', 'message_id'):
                if d in c.methods:
                    f = c.methods[d]
                    res.add('LT-NUMERIC', f.short, f'{c.name} overrides {d}', False,
                            f'{c.name} re-defines {d}: objects of this class no longer sort by numeric message id', f.file, f.node.lineno)
    fi = prog.func('MosFile.message_id')
    rets = [r for r in ast.walk(fi.node) if isinstance(r, ast.Return) and r.value is not None]
    ok = bool(rets) and all(isinstance(r.value, ast.Call) and attr_chain(r.value.func) == 'int' and 'messageID' in norm(r.value) for r in rets)
    res.add('ID-IS-INT', fi.short, "return int(<messageID text>)", ok, '' if ok else 'message_id is not converted with int(): ids would sort as text (10 < 9)', fi.file, fi.node.lineno)
    init = prog.func('MosReader.__init__')
    mo = init.node.args.args[1].arg
    ok = any(isinstance(n, ast.Assign) and attr_chain(n.targets[0]) == 'self._message_id' and attr_chain(n.value) == f'{mo}.message_id' for n in ast.walk(init.node))
    res.add('ID-IS-INT', init.short, 'self._message_id = mo.message_id', ok, '' if ok else 'the reader does not store the message id unchanged', init.file, init.node.lineno)
    g = prog.func('MosReader.message_id')
    rets = [r for r in ast.walk(g.node) if isinstance(r, ast.Return) and r.value is not None]
    ok = len(rets) == 1 and attr_chain(rets[0].value) == 'self._message_id'
    res.add('ID-IS-INT', g.short, 'return self._message_id', ok, '' if ok else 'MosReader.message_id does not return the stored id', g.file, g.node.lineno)


def order_preserved(res: CheckResult, prog: Program):
    res.rules['ORDER-PRESERVED'] = 'between construction and the fold the reader list is only filtered by order-preserving comprehensions'
    ci = prog.cls('MosCollection')
    for name, fi in ci.methods.items():
        if name.startswith('from_'):
            continue
        if fi.kind in ('classmethod', 'staticmethod') and not any(isinstance(n, ast.Attribute) and n.attr in ('_mos_readers', 'mos_readers') for n in ast.walk(fi.node)):
            continue        # constructor helper: runs before the collection exists and never touches a collection's reader list
        bad = calls_in(fi.node, lambda c: attr_chain(c.func) in ('sorted', 'reversed', 'set', 'frozenset', 'random.shuffle')
                       or (isinstance(c.func, ast.Attribute) and c.func.attr in ('sort', 'reverse')))
        stores = [n for n in ast.walk(fi.node) if isinstance(n, ast.Assign) and any(attr_chain(t) == 'self._mos_readers' for t in n.targets)]
        aliases = {'self.mos_readers', 'self._mos_readers'} | {n.targets[0].id for n in ast.walk(fi.node) if isinstance(n, ast.Assign)
                                                                 and len(n.targets) == 1 and isinstance(n.targets[0], ast.Name)
                                                                 and attr_chain(n.value) in ('self.mos_readers', 'self._mos_readers')}
        if stores or bad or name in ('_validate', 'merge', '__init__'):
            ok = not bad
            for s in stores:
                copy_call = isinstance(s.value, ast.Call) and attr_chain(s.value.func) in ('list', 'tuple') and len(s.value.args) == 1 \
                    and attr_chain(s.value.args[0]) in aliases | {'mos_readers'}
                if not isinstance(s.value, (ast.ListComp, ast.Name, ast.Attribute)) and not copy_call:
                    ok = False
                if isinstance(s.value, ast.ListComp) and (len(s.value.generators) != 1 or attr_chain(s.value.generators[0].iter) not in aliases):
                    ok = False
            res.add('ORDER-PRESERVED', fi.short, 'no re-ordering of self._mos_readers', ok,
                    '' if ok else f'{fi.short} re-orders or rebuilds the reader list: {[norm(b) for b in bad] or [norm(s) for s in stores]}', fi.file, fi.node.lineno)


# ------------------------------------------------------------------- C18
def restore_pair(res: CheckResult, prog: Program):
    if _reader_by_interpretation(res, prog):
        return
    res.rules['RESTORE-PAIR'] = 'MosReader.from_X restores with mo.__class__.from_X for the same X and exactly the arguments given to MosFile.from_X, in order'
    res.rules['READER-FIELDS'] = 'the reader records mo.message_id / mo.ro_id / mo.__class__ and each public property returns the matching field'
    for x in ('from_file', 'from_string', 'from_s3'):
        fi = prog.func('MosReader.' + x)
        params = [a.arg for a in fi.node.args.args[1:]]
        made = calls_in(fi.node, lambda c: attr_chain(c.func) == 'MosFile.' + x)
        ret = [c for c in calls_in(fi.node, lambda c: attr_chain(c.func) == 'cls')]
        ok, detail = True, ''
        if len(made) != 1 or len(ret) != 1:
            res.error(f'RESTORE-PAIR: {fi.short} idiom not recognised')
            continue
        used = [attr_chain(a) for a in made[0].args] + [attr_chain(k.value) for k in made[0].keywords]
        if used != params:
            ok, detail = False, f'MosFile.{x} is called with {used}, parameters are {params}'
        kw = {k.arg: k.value for k in ret[0].keywords}
        fn = attr_chain(kw.get('restore_fn')) if 'restore_fn' in kw else (attr_chain(ret[0].args[1]) if len(ret[0].args) > 1 else '')
        argsv = kw.get('restore_args') if 'restore_args' in kw else (ret[0].args[2] if len(ret[0].args) > 2 else None)
        mo = attr_chain(ret[0].args[0]) if ret[0].args else attr_chain(kw.get('mo'))
        if fn not in (f'{mo}.__class__.{x}', f'type({mo}).{x}'):
            ok, detail = False, f'restore_fn is {fn}: not the {x} constructor of the classified class'
        if not (isinstance(argsv, ast.Tuple) and [attr_chain(e) for e in argsv.elts] == params):
            ok, detail = False, f'restore_args is {norm(argsv) if argsv is not None else "?"}: not exactly ({", ".join(params)})'
        res.add('RESTORE-PAIR', fi.short, f'cls(mo, restore_fn=mo.__class__.{x}, restore_args=({", ".join(params)},))', ok, detail, fi.file, fi.node.lineno)
    init = prog.func('MosReader.__init__')
    mo = init.node.args.args[1].arg
    want = {'self._message_id': f'{mo}.message_id', 'self._ro_id': f'{mo}.ro_id', 'self._mos_type': f'{mo}.__class__',
            'self._restore_fn': 'restore_fn', 'self._restore_args': 'restore_args'}
    got = {attr_chain(n.targets[0]): attr_chain(n.value) for n in ast.walk(init.node) if isinstance(n, ast.Assign) and len(n.targets) == 1}
    for k, v in want.items():
        ok = got.get(k) in (v, v.replace('.__class__', '') if False else v) or (k == 'self._mos_type' and got.get(k) == f'type({mo})')
        res.add('READER-FIELDS', init.short, f'{k} = {v}', ok, '' if ok else f'{k} is assigned {got.get(k)}', init.file, init.node.lineno)
    for prop, fld in (('message_id', 'self._message_id'), ('ro_id', 'self._ro_id'), ('mos_type', 'self._mos_type')):
        g = prog.func('MosReader.' + prop)
        rets = [r for r in ast.walk(g.node) if isinstance(r, ast.Return) and r.value is not None]
        ok = len(rets) == 1 and attr_chain(rets[0].value) == fld
        res.add('READER-FIELDS', g.short, f'return {fld}', ok, '' if ok else f'{g.short} returns {norm(rets[0].value) if rets else "?"}', g.file, g.node.lineno)


def all_pages(res: CheckResult, prog: Program):
    """ALL-PAGES is decided by interpretation (rules_s3.S3Flow); S3-DELEGATES structurally."""
    from . import rules_s3
    rules_s3.all_pages(res, prog)
    res.rules['S3-DELEGATES'] = 'get_file_contents returns the object body read() unmodified'
    g = prog.func('utils.s3:get_file_contents')
    rets = [r for r in ast.walk(g.node) if isinstance(r, ast.Return) and r.value is not None]
    ok = len(rets) == 1 and norm(rets[0].value).endswith('.read()')
    res.add('S3-DELEGATES', g.short, 'return <Body>.read()', ok, '' if ok else 'the downloaded body is transformed before it is parsed', g.file, g.node.lineno)


def collection_ctor_siblings(res: CheckResult, prog: Program):
    if any(o.rule == 'COLL-SIBLINGS' for o in res.obligations) or str(res.extra.get('ctor_rules_method', '')).startswith('abstract'):
        return          # already decided by interpretation (sorted_ctors)
    res.rules['COLL-SIBLINGS'] = 'the three MosCollection constructors have the same pipeline (reader per input, drop None, sorted, cls(..., allow_incomplete=...)) and differ only in the reader constructor'

    def shape(fi, reader_ctor):
        call, src = _returned_cls_call(fi, prog)
        if call is None or src is None:
            return None
        t = norm(src)
        t = t.replace('MosReader.' + reader_ctor, 'MosReader.CTOR')
        import re
        t = re.sub(r'CTOR\([^)]*\)', 'CTOR(X)', t)
        t = re.sub(r'for (\w+) in (\w+)\]', 'for V in INPUTS]', t)
        return t + ' | ' + ', '.join(sorted(f'{k.arg}={norm(k.value)}' for k in call.keywords))
    shapes = {n: shape(prog.func('MosCollection.' + n), r) for n, r in (('from_files', 'from_file'), ('from_strings', 'from_string'), ('from_s3', 'from_s3'))}
    vals = set(shapes.values())
    ok = len(vals) == 1 and None not in vals
    res.add('COLL-SIBLINGS', 'MosCollection.from_*', 'same pipeline in from_files / from_strings / from_s3', ok, '' if ok else f'the constructors differ: {shapes}')


# ------------------------------------------------------------------- C19
def cli_rules(res: CheckResult, prog: Program, from_file_raises, inspect_ok: bool):
    hier = ExcHier(prog)
    res.rules.update({
        'LOOP-CONTAIN': 'in both per-file loops of detect_or_inspect every exception MosFile.from_* can raise is caught inside the loop and the loop continues',
        'FLAG-PLUMB': 'allow_incomplete=self._args.incomplete reaches all collection constructors; strict = not self._args.non_strict reaches mc.merge(strict=...)',
        'OUTPUT-EXACT': 'the -o file receives str(mc) and stdout receives mc, untransformed',
        'EXIT-MAP': 'CLI.__call__ maps any exception to a message on stderr and status 2; do_merge returns 2 with a message on InvalidMosCollection',
    })
    fi = prog.func('CLI.detect_or_inspect')
    loops = [n for n in ast.walk(fi.node) if isinstance(n, ast.For)]
    found = 0
    for lp in loops:
        ctor = [c for c in calls_in(lp, lambda c: attr_chain(c.func).startswith('MosFile.from_'))]
        if not ctor:
            continue
        found += 1
        which = attr_chain(ctor[0].func).split('.')[-1]
        tries = [t for t in lp.body if isinstance(t, ast.Try) and calls_in(t, lambda c: c is ctor[0])]
        need = set(from_file_raises) if which == 'from_file' else {'MosInvalidXML', 'UnknownMosFileType'}
        ok, detail = bool(tries), 'the constructor call is not inside a try within the loop'
        if tries:
            caught = []
            for h in tries[0].handlers:
                if h.type is None:
                    caught.append('BaseException')
                else:
                    caught += [e.attr if isinstance(e, ast.Attribute) else getattr(e, 'id', '?') for e in (h.type.elts if isinstance(h.type, ast.Tuple) else [h.type])]
                leaves = any(isinstance(x, (ast.Raise, ast.Return, ast.Break)) for s in h.body for x in ast.walk(s))
                falls_to_next = tries[0] is lp.body[-1] and not tries[0].finalbody        # try/except/else: nothing follows the handler
                if leaves or not (any(isinstance(s, ast.Continue) for s in h.body) or falls_to_next):
                    ok, detail = False, 'a handler does not continue with the next file'
            missing = [x for x in sorted(need) if not any(hier.isa(x, c) for c in caught)]
            if missing:
                ok, detail = False, f'{missing} raised by MosFile.{which} is not caught inside the loop: one bad or unreadable file aborts the remaining files'
            elif ok:
                detail = ''
        res.add('LOOP-CONTAIN', fi.short, f'try: MosFile.{which}(...) inside the per-file loop', ok, detail, fi.file, lp.lineno)
        order_ok = attr_chain(lp.iter) in ('self._args.files', 'mos_file_keys')
        res.add('LOOP-CONTAIN', fi.short, f'for ... in {attr_chain(lp.iter)} (argument order)', order_ok, '' if order_ok else 'files are not processed in argument order', fi.file, lp.lineno)
        scope = [lp]
        for c in calls_in(lp, lambda c: attr_chain(c.func).startswith('self.') and attr_chain(c.func) != 'self.detect_file'):
            helper = prog.cls('CLI').find(attr_chain(c.func).split('.', 1)[1]) if attr_chain(c.func).count('.') == 1 else None
            if helper is not None:
                scope.append(helper.node)          # one level of helper method called from the loop
        insp = [c for n in scope for c in calls_in(n, lambda c: attr_chain(c.func).endswith('.inspect'))]
        det = [c for n in scope for c in calls_in(n, lambda c: attr_chain(c.func) == 'self.detect_file')]
        res.add('LOOP-CONTAIN', fi.short, 'detect_file then (if inspect) mo.inspect()', bool(det) and bool(insp), '' if det and insp else 'detect/inspect calls missing from the loop', fi.file, lp.lineno)
    if found < 2:
        res.error('LOOP-CONTAIN: the two per-file loops of detect_or_inspect were not found')
    res.add('LOOP-CONTAIN', 'inspect()', 'no inspect() can raise for a classifiable message (C20 INSPECT-TOTAL)', inspect_ok,
            '' if inspect_ok else 'an inspect() method has an exceptional exit: mosromgr inspect aborts on that message')
    cli_parser_flags(res, prog)
    dm = prog.func('CLI.do_merge')
    _cli_rest(res, prog, dm, hier)


def cli_parser_flags(res: CheckResult, prog: Program):
    res.rules.setdefault('FLAG-PLUMB', 'allow_incomplete=self._args.incomplete reaches all collection constructors; strict = not self._args.non_strict reaches mc.merge(strict=...)')
    parser = prog.func('CLI._get_parser')
    flags = {}
    for c in calls_in(parser.node, lambda c: attr_chain(c.func).endswith('.add_argument')):
        names = [a.value for a in c.args if isinstance(a, ast.Constant)]
        act = next((k.value.value for k in c.keywords if k.arg == 'action' and isinstance(k.value, ast.Constant)), None)
        for n in names:
            flags[n] = act
    if '--incomplete' not in flags or '--non-strict' not in flags:
        # the options are not defined by literal add_argument calls in _get_parser (an option table, a helper): look the two flag
        # literals up in the module and require 'store_true' in the same call / record; otherwise there is no verdict
        mod = parser.module.tree
        for c in ast.walk(mod):
            if isinstance(c, ast.Call):
                consts = [a.value for a in ast.walk(c) if isinstance(a, ast.Constant) and isinstance(a.value, str)]
                for n in ('--incomplete', '--non-strict'):
                    if n in consts and n not in flags and sum(1 for x in consts if x.startswith('--')) == 1:
                        flags[n] = 'store_true' if 'store_true' in consts else next((x for x in consts if x.startswith('store') or x in ('count', 'append')), None)
        if '--incomplete' not in flags or '--non-strict' not in flags:
            res.error(f'FLAG-PLUMB: the definitions of --incomplete / --non-strict were not found in {parser.short} or its module (idiom not recognised)')
            return
    ok = flags.get('--incomplete') == 'store_true' and flags.get('--non-strict') == 'store_true'
    res.add('FLAG-PLUMB', parser.short, '--incomplete / --non-strict are store_true flags', ok, '' if ok else f'flag definitions: incomplete={flags.get("--incomplete")}, non-strict={flags.get("--non-strict")}', parser.file, parser.node.lineno)


def _cli_rest(res: CheckResult, prog: Program, dm, hier):
    ctors = calls_in(dm.node, lambda c: attr_chain(c.func).startswith('MosCollection.from_'))
    for c in ctors:
        kw = {k.arg: attr_chain(k.value) for k in c.keywords}
        ok = kw.get('allow_incomplete') == 'self._args.incomplete'
        res.add('FLAG-PLUMB', dm.short, f'{attr_chain(c.func)}(allow_incomplete=self._args.incomplete)', ok,
                '' if ok else f'allow_incomplete is {kw.get("allow_incomplete")}', dm.file, c.lineno)
    if len(ctors) < 2:
        res.error('FLAG-PLUMB: collection constructors not found in do_merge')
    merges = calls_in(dm.node, lambda c: attr_chain(c.func) == 'mc.merge')
    assigns = {attr_chain(n.targets[0]): norm(n.value) for n in ast.walk(dm.node) if isinstance(n, ast.Assign) and len(n.targets) == 1}
    ok = len(merges) == 1 and len(merges[0].keywords) == 1 and merges[0].keywords[0].arg == 'strict'
    if ok:
        v = attr_chain(merges[0].keywords[0].value)
        v = assigns.get(v, v)
        ok = v == 'not self._args.non_strict'
    res.add('FLAG-PLUMB', dm.short, 'mc.merge(strict=not self._args.non_strict)', ok, '' if ok else 'the strict flag does not reach mc.merge as "not --non-strict"', dm.file, dm.node.lineno)
    # output
    writes = calls_in(dm.node, lambda c: attr_chain(c.func).endswith('.write') and attr_chain(c.func) != 'sys.stderr.write')
    ok = len(writes) == 1 and len(writes[0].args) == 1 and norm(writes[0].args[0]) == 'str(mc)'
    res.add('OUTPUT-EXACT', dm.short, 'f.write(str(mc))', ok, '' if ok else f'the output file receives {[norm(w) for w in writes]}', dm.file, dm.node.lineno)
    opens = calls_in(dm.node, lambda c: attr_chain(c.func) == 'open')
    ok = len(opens) == 1 and attr_chain(opens[0].args[0]) == 'self._args.outfile' and len(opens[0].args) > 1 and isinstance(opens[0].args[1], ast.Constant) and opens[0].args[1].value == 'w'
    res.add('OUTPUT-EXACT', dm.short, "open(self._args.outfile, 'w')", ok, '' if ok else 'the -o file is not opened for (over)writing at the given path', dm.file, dm.node.lineno)
    prints = [c for c in calls_in(dm.node, lambda c: attr_chain(c.func) == 'print') if any(norm(a) in ('mc', 'str(mc)') for a in c.args)]
    ok = len(prints) == 1 and len(prints[0].args) == 1 and not prints[0].keywords
    res.add('OUTPUT-EXACT', dm.short, 'print(mc)', ok, '' if ok else 'stdout does not receive exactly the merged collection', dm.file, dm.node.lineno)
    # exit map
    call = prog.func('CLI.__call__')
    tries = [n for n in ast.walk(call.node) if isinstance(n, ast.Try)]
    ok = False
    if tries:
        t = tries[0]
        h = t.handlers[0] if t.handlers else None
        names = [] if h is None or h.type is None else [e.attr if isinstance(e, ast.Attribute) else getattr(e, 'id', '?') for e in (h.type.elts if isinstance(h.type, ast.Tuple) else [h.type])]
        ok = h is not None and (h.type is None or any(n in ('Exception', 'BaseException') for n in names)) \
            and any(isinstance(s, ast.Return) and isinstance(s.value, ast.Constant) and s.value.value == 2 for s in h.body) \
            and bool(calls_in(h, lambda c: attr_chain(c.func) == 'sys.stderr.write')) \
            and any(isinstance(s, ast.Return) and 'self._args.func()' in norm(s) for s in t.body)
    res.add('EXIT-MAP', call.short, 'try: return self._args.func() except Exception: stderr + return 2', ok, '' if ok else 'the top-level error mapping is not "message on stderr, status 2"', call.file, call.node.lineno)
    tries = [n for n in ast.walk(dm.node) if isinstance(n, ast.Try)]
    ok = False
    for t in tries:
        for h in t.handlers:
            names = [] if h.type is None else [e.attr if isinstance(e, ast.Attribute) else getattr(e, 'id', '?') for e in (h.type.elts if isinstance(h.type, ast.Tuple) else [h.type])]
            if any(hier.isa('InvalidMosCollection', n) for n in names):
                ok = any(isinstance(s, ast.Return) and isinstance(s.value, ast.Constant) and s.value.value == 2 for s in h.body) \
                    and bool(calls_in(h, lambda c: attr_chain(c.func) == 'sys.stderr.write'))
    res.add('EXIT-MAP', dm.short, 'except InvalidMosCollection: stderr + return 2', ok, '' if ok else 'an invalid collection is not reported on stderr with status 2', dm.file, dm.node.lineno)
    rets = [r for r in ast.walk(dm.node) if isinstance(r, ast.Return) and r.value is not None and not (isinstance(r.value, ast.Constant) and r.value.value == 2)]
    res.add('EXIT-MAP', dm.short, 'success path returns None (status 0)', not rets, '' if not rets else f'do_merge returns {[norm(r.value) for r in rets]} on success', dm.file, dm.node.lineno)


# ---------------------------------------------------------- shared memoised results (C07, C08, C13, C14, C18)
MEMO_DECORATORS = ('lru_cache', 'functools.lru_cache', 'cache', 'functools.cache')


STR_RESULT_METHODS = {'strip', 'lstrip', 'rstrip', 'lower', 'upper', 'title', 'casefold', 'capitalize', 'replace', 'format', 'join', 'removeprefix', 'removesuffix',
                      'zfill', 'ljust', 'rjust', 'center', 'swapcase', 'expandtabs', 'translate',
                      'startswith', 'endswith', 'isdigit', 'isalpha', 'isalnum', 'isspace', 'isupper', 'islower', 'isnumeric', 'isdecimal', 'isidentifier', 'istitle',
                      'index', 'rindex', 'count'}          # (not find: Element.find returns a mutable node)


def _immutable_result(v) -> bool:
    """syntactically certain that the value is a str / number / bool / None / tuple of those: sharing it is harmless"""
    if isinstance(v, (ast.Constant, ast.JoinedStr, ast.Compare)):
        return True
    if isinstance(v, ast.BoolOp):
        return all(_immutable_result(x) for x in v.values)
    if isinstance(v, ast.UnaryOp):
        return isinstance(v.op, ast.Not) or _immutable_result(v.operand)
    if isinstance(v, ast.IfExp):
        return _immutable_result(v.body) and _immutable_result(v.orelse)
    if isinstance(v, ast.Tuple):
        return all(_immutable_result(x) for x in v.elts)
    if isinstance(v, ast.BinOp) and isinstance(v.op, ast.Mod) and isinstance(v.left, (ast.Constant, ast.JoinedStr)):
        return True
    if isinstance(v, ast.Call):
        f = norm(v.func)
        if f in ('str', 'int', 'float', 'bool', 'frozenset', 'len', 'any', 'all', 'isinstance', 'issubclass', 'callable', 'hash', 'repr', 'ord', 'chr', 'abs', 'round'):
            return True
        if f == 'tuple':
            return True
        if isinstance(v.func, ast.Attribute) and v.func.attr in STR_RESULT_METHODS:
            return True
    return False


IMMUTABLE_ANNOTATIONS = {'str', 'int', 'float', 'bool', 'bytes', 'complex', 'type', 'None', 'tuple', 'frozenset', 'Tuple', 'FrozenSet', 'Type', 'Optional', 'Union',
                         'datetime', 'timedelta', 'date', 'Path', 'PurePath', 'Enum'}
TREE_READS = {'find', 'findall', 'findtext', 'iter', 'iterfind', 'itertext', 'getchildren', 'getiterator'}
TREE_ATTRS = {'xml', 'base_tag', 'stories', 'items', 'story', 'item', 'source_stories', 'source_items', 'target_story', 'target_item'}


def _annotation_immutable(ann) -> bool:
    """the annotation names only immutable value types (str, int, Optional[str], Tuple[str, ...]): the cache key is the value"""
    if ann is None:
        return False
    names = {n.id for n in ast.walk(ann) if isinstance(n, ast.Name)} | {n.attr for n in ast.walk(ann) if isinstance(n, ast.Attribute)}
    consts = [n.value for n in ast.walk(ann) if isinstance(n, ast.Constant) and isinstance(n.value, str)]
    for c in consts:                     # string annotations
        try:
            sub = ast.parse(c, mode='eval').body
        except SyntaxError:
            return False
        names |= {n.id for n in ast.walk(sub) if isinstance(n, ast.Name)}
    return bool(names) and names <= IMMUTABLE_ANNOTATIONS


def _memo_reads_tree(fn):
    """(parameter, what is read, line) when the memoised function `fn` reads the child structure of a parameter that is not
    annotated as an immutable value: iteration / len / indexing of a parameter annotated with another type, Element search
    methods (findall, iter, findtext ...; `find` unless the parameter is unannotated and could be a str), or the tree-valued
    attributes of the package's wrappers (xml, base_tag, stories, items).  Reading .text/.tag/.attrib alone is not flagged:
    no merge edits those in place."""
    a = fn.args
    params = {}
    for arg in list(a.posonlyargs) + list(a.args) + list(a.kwonlyargs) + ([a.vararg] if a.vararg else []) + ([a.kwarg] if a.kwarg else []):
        if not _annotation_immutable(arg.annotation):
            params[arg.arg] = arg.annotation is not None or arg.arg in ('self', 'cls')
    if not params:
        return None
    for node in ast.walk(fn):
        if isinstance(node, ast.Attribute) and isinstance(node.value, ast.Name) and node.value.id in params:
            p = node.value.id
            if node.attr in TREE_ATTRS:
                return (p, f'`{p}.{node.attr}`', node.lineno)
            if node.attr in TREE_READS and (node.attr != 'find' or params[p]):
                return (p, f'`{p}.{node.attr}(...)`', node.lineno)
        its = []
        if isinstance(node, (ast.For, ast.AsyncFor)):
            its.append(node.iter)
        if isinstance(node, ast.comprehension):
            its.append(node.iter)
        if isinstance(node, ast.Call) and isinstance(node.func, ast.Name) and node.func.id in ('list', 'tuple', 'len', 'iter', 'sorted', 'reversed', 'enumerate') and node.args:
            its.append(node.args[0])
        if isinstance(node, ast.Subscript):
            its.append(node.value)
        for it in its:
            if isinstance(it, ast.Name) and it.id in params and params[it.id] and it.id not in ('self', 'cls'):
                return (it.id, f'the children of `{it.id}` (iteration / len / indexing)', it.lineno)
    return None


def no_shared_memo(res: CheckResult, prog: Program):
    """A memoising decorator hands the *same* result object to every caller with equal arguments.  For functions that
    return (or build objects around) a mutable parse tree this makes independent objects share one document."""
    res.rules['NO-SHARED-MEMO'] = ('no function of the package that can return a non-constant object is memoised with functools.lru_cache/cache: '
                                   'objects built from equal inputs would share one mutable XML tree')
    n = 0
    for m in prog.modules.values():
        for node in ast.walk(m.tree):
            if not isinstance(node, (ast.FunctionDef, ast.AsyncFunctionDef)):
                continue
            n += 1
            decs = []
            for d in node.decorator_list:
                decs.append(norm(d.func if isinstance(d, ast.Call) else d))
            memo = [d for d in decs if d in MEMO_DECORATORS]
            if not memo:
                continue
            rets = [r.value for r in ast.walk(node) if isinstance(r, ast.Return) and r.value is not None]
            immutable = all(_immutable_result(v) for v in rets)
            res.add('NO-SHARED-MEMO', node.name, f'@{memo[0]} def {node.name}', immutable,
                    '' if immutable else f'{node.name} is memoised and returns {norm(rets[0]) if rets else "?"}: every object built from an equal input shares that result '
                    '(a merge into one running order then shows up in another; a completed marker leaks to a fresh object)', m.relpath, node.lineno)
            stale = _memo_reads_tree(node)
            res.add('NO-SHARED-MEMO', node.name, f'@{memo[0]} def {node.name}: result depends only on the cache key', not stale,
                    '' if not stale else f'{node.name} is memoised by the identity of `{stale[0]}` but computes its result from {stale[1]} (line {stale[2]}): '
                    'the child structure of a tree the merges edit in place is not part of the cache key, so the first answer is returned after the tree has changed',
                    m.relpath, node.lineno)
    res.add('NO-SHARED-MEMO', 'package', f'{n} function definitions scanned for memoising decorators', True)
    no_shared_default(res, prog)


MUTATORS = {'append', 'extend', 'insert', 'add', 'update', 'setdefault', 'pop', 'popitem', 'remove', 'clear', 'discard', 'sort', 'reverse',
            'appendleft', 'extendleft', '__setitem__', '__delitem__'}


def no_shared_default(res: CheckResult, prog: Program):
    """A mutable default argument is created once, when the function is defined: a function that changes it (or hands it
    out) keeps state from one call to the next - between two merges, two accessor reads, two listings in one process."""
    res.rules['NO-SHARED-DEFAULT'] = ('no function of the package has a mutable default argument (list / dict / set display or constructor) that its body mutates, '
                                      'returns, yields or stores: the object would be shared by every call that relies on the default')
    n = 0
    for m in prog.modules.values():
        for node in ast.walk(m.tree):
            if not isinstance(node, (ast.FunctionDef, ast.AsyncFunctionDef, ast.Lambda)):
                continue
            a = node.args
            pos = list(a.posonlyargs) + list(a.args)
            pairs = list(zip(pos[len(pos) - len(a.defaults):], a.defaults)) + [(p, d) for p, d in zip(a.kwonlyargs, a.kw_defaults) if d is not None]
            for p, d in pairs:
                mutable = isinstance(d, (ast.List, ast.Dict, ast.Set, ast.ListComp, ast.DictComp, ast.SetComp)) or \
                    (isinstance(d, ast.Call) and norm(d.func).split('.')[-1] in ('list', 'dict', 'set', 'defaultdict', 'Counter', 'OrderedDict', 'deque', 'bytearray'))
                if not mutable:
                    continue
                n += 1
                name = p.arg
                body = node.body if isinstance(node.body, list) else [node.body]
                how = None
                rebound = False
                for b in body:
                    for x in ast.walk(b):
                        if isinstance(x, ast.Call) and isinstance(x.func, ast.Attribute) and isinstance(x.func.value, ast.Name) and x.func.value.id == name \
                                and x.func.attr in MUTATORS:
                            how = how or f'{name}.{x.func.attr}(...)'
                        elif isinstance(x, (ast.Assign, ast.AugAssign, ast.Delete)):
                            tg = x.targets if isinstance(x, (ast.Assign, ast.Delete)) else [x.target]
                            for t in tg:
                                if isinstance(t, ast.Subscript) and isinstance(t.value, ast.Name) and t.value.id == name:
                                    how = how or f'{name}[...] is assigned / deleted'
                                if isinstance(x, ast.AugAssign) and isinstance(t, ast.Name) and t.id == name:
                                    how = how or f'{name} {type(x.op).__name__}= ... (in place for a list / set / dict)'
                                if isinstance(x, ast.Assign) and isinstance(t, ast.Name) and t.id == name:
                                    rebound = True
                                if isinstance(x, ast.Assign) and isinstance(t, ast.Attribute) and isinstance(x.value, ast.Name) and x.value.id == name:
                                    how = how or f'stored as {norm(t)}'
                        elif isinstance(x, (ast.Return, ast.Yield)) and isinstance(x.value, ast.Name) and x.value.id == name:
                            how = how or f'{"return" if isinstance(x, ast.Return) else "yield"} {name}'
                fname = getattr(node, 'name', '<lambda>')
                ok = how is None or rebound
                res.add('NO-SHARED-DEFAULT', fname, f'{name}={norm(d)}', ok,
                        '' if ok else f'{fname} has the mutable default {name}={norm(d)} and its body does {how}: the one default object is shared by all calls, '
                        'so a call sees what earlier calls (an earlier merge, an earlier read, a failed attempt) left in it', m.relpath, d.lineno)
    res.add('NO-SHARED-DEFAULT', 'package', f'{n} mutable default arguments found in the package', True)
