"""Abstract semantics of the primitives (the trusted model, DESIGN §3):
ElementTree subset, lists/tuples/dicts, strings, builtins, a few library calls,
and the index-typestate transfer functions for tree mutations."""
from __future__ import annotations

import ast
from dataclasses import dataclass, replace
from typing import Any, Callable, List, Optional, Tuple

from . import schema
from .domains import (BoolV, BoundV, ClsV, Const, DictE, ElemE, ExcV, ExtV, FuncV, IdxE, IterV, LenV, ListE,
                      MethV, ModV, NoneV, NumV, ObjE, Ref, S, State, StrV, TupleV, Unknown, Val)
from .front import AnalysisError, norm


@dataclass
class IterSpec:
    lo: int
    hi: Optional[int]
    exact: Optional[list]
    make: Optional[Callable]
    descr: str = ''
    ordered: bool = True
    adv: Any = None          # for enumerate(start=<index>): captured base index entry
    listsym: Any = None      # heap symbol of the list being iterated, if any
    live_parent: Any = None  # element whose live child list is being iterated


def _Raise():
    from .interp import Raise
    return Raise


from .model2 import ModelMixin2  # noqa: E402
from .model3 import ModelMixin3  # noqa: E402


class ModelMixin(ModelMixin2, ModelMixin3):
    BUILTINS = {'len', 'list', 'tuple', 'set', 'frozenset', 'sorted', 'reversed', 'enumerate', 'all', 'any', 'sum',
                'int', 'float', 'str', 'bool', 'print', 'isinstance', 'issubclass', 'type', 'open', 'min', 'max',
                'range', 'zip', 'dict', 'repr', 'getattr', 'hasattr', 'iter', 'next', 'abs', 'id', 'map', 'filter',
                'object', 'bytes', 'round', 'callable', 'vars', 'dir', 'hash', 'format', 'ord', 'chr', 'divmod',
                'NotImplemented', 'Ellipsis', 'super', 'property', 'classmethod', 'staticmethod'}

    # ------------------------------------------------------------ hooks
    def hook(self, kind, st, node, **data):
        """Overridden by rule engines; called on every modelled effect."""

    # --------------------------------------------------------- describing
    def describe(self, v, st: State, depth=0) -> str:
        if depth > 24:
            return '...'
        if isinstance(v, Ref):
            e = st.heap.get(v.sym)
            if isinstance(e, ElemE):
                return self.odescr(e.origin, st, depth + 1)
            if isinstance(e, IdxE):
                return e.descr or self.idx_descr(e, st, depth + 1)
            if isinstance(e, ListE):
                if e.kind in ('findall', 'children', 'live') and e.parent:
                    base = self.describe(Ref('elem', e.parent), st, depth + 1)
                    return f"{base}.findall({e.tag!r})" if e.kind == 'findall' else f'children({base})'
                if e.src and e.src in st.heap:
                    return f'{e.kind}({self.describe(Ref("list", e.src), st, depth + 1)})'
                if e.items:
                    return f'{e.kind}[' + ', '.join(self.describe(x, st, depth + 1) for x in e.items[:3]) + ']'
                return e.kind + '-list'
            if isinstance(e, ObjE):
                cname = e.cls.split(':')[-1]
                x = e.get('_xml')
                return f'{cname}({self.describe(x, st, depth + 1) if x is not None else ""})'
            return f'<{v.kind}>'
        if isinstance(v, TupleV):
            return '(' + ', '.join(self.describe(x, st, depth + 1) for x in v.items) + ')'
        if isinstance(v, StrV):
            return self.odescr(v.origin, st, depth + 1) if v.origin else 'str'
        if isinstance(v, NoneV):
            return 'None' + (f'<{self.odescr(v.origin, st, depth + 1)}>' if v.origin else '')
        if isinstance(v, Const):
            return repr(v.v)
        if isinstance(v, LenV):
            return f'len({self.describe(Ref("list", v.sym), st, depth + 1)})'
        if isinstance(v, ClsV):
            return v.qual.split(':')[-1]
        if isinstance(v, IterV):
            return f'{v.kind}({self.describe(v.src, st, depth + 1)})'
        if isinstance(v, ExtV):
            return f'<{v.name}>'
        return type(v).__name__

    def idx_descr(self, e: IdxE, st, depth=0):
        p = self.describe(Ref('elem', e.parent), st, depth) if e.parent and e.parent in st.heap else '?'
        a = self.describe(Ref('elem', e.anchor), st, depth) if e.anchor and e.anchor in st.heap else None
        if e.kind == 'end':
            return f'len({p})'
        if e.kind in ('fresh', 'slot'):
            return f'index-of({a})'
        if e.kind == 'const':
            return str(e.const)
        return f'{e.kind}-index({e.why})'

    def odescr(self, o, st: State, depth=0) -> str:
        if o is None:
            return ''
        if depth > 24:
            return '...'
        if isinstance(o, tuple):
            if len(o) == 2 and o[0] == '$':
                return self.describe(Ref('elem', o[1]), st, depth + 1) if o[1] in st.heap else '<gone>'
            k = o[0] if o else ''
            d = lambda x: self.odescr(x, st, depth + 1)   # noqa: E731
            if k == 'root':
                return {'RO': 'ro.xml', 'MSG': 'self.xml'}.get(o[1], o[1] + '.xml')
            if k == 'first':
                base = d(o[1])
                return f'{base}.find({o[2]!r})'
            if k == 'path':
                return f'{d(o[1])}.find({o[2]!r})'
            if k == 'each':
                return f'each({d(o[1])}.findall({o[2]!r}))'
            if k == 'nth':
                return f'{d(o[1])}.findall({o[2]!r})[{o[3]}]'
            if k == 'iterchild':
                return f'child({d(o[1])})'
            if k == 'lookup':
                return f'found({o[2]} in {d(o[1])} by {o[3]})'
            if k == 'copy':
                return f'deepcopy({d(o[1])})'
            if k == 'shallowcopy':
                return f'copy({d(o[1])})'
            if k == 'new':
                return f'SubElement({d(o[2])}, {o[1]!r})' if len(o) > 2 and o[2] else f'Element({o[1]!r})'
            if k == 'text':
                return f'{d(o[1])}.text'
            if k == 'tag':
                return f'{d(o[1])}.tag'
            if k == 'attr':
                return f'{d(o[1])}.attrib[{o[2]!r}]'
            if k == 'blank':
                return f'blank {d(o[1])}.text'
            if k == 'absent':
                return f'absent {d(o[1])}.find({o[2]!r})'
            if k == 'noret':
                return 'no return value'
            if k == 'parsed':
                return 'parsed-document'
            if k == 'elem-of':
                return f'element-of({o[1]})'
            if k in ('arg', 'argument') and len(o) == 2:
                return f'{k}.{o[1]}'
            if len(o) == 2 and isinstance(o[1], tuple) and isinstance(k, str) and hasattr(str, k):
                return f'{d(o[1])}.{k}()'          # result of a str method on a described value
            return str(k)
        return str(o)

    # ------------------------------------------------------------- truth
    def cond(self, e, st: State):
        """Evaluate *e* as a condition with refinement -> [(bool | Raise, st)]"""
        Raise = _Raise()
        if isinstance(e, ast.BoolOp):
            is_and = isinstance(e.op, ast.And)

            def go(i, s):
                out = []
                for b, s1 in self.cond(e.values[i], s):
                    if isinstance(b, Raise):
                        out.append((b, s1))
                    elif i == len(e.values) - 1:
                        out.append((b, s1))
                    elif b == is_and:
                        out.extend(go(i + 1, s1))
                    else:
                        out.append((b, s1))
                return out
            return go(0, st)
        if isinstance(e, ast.UnaryOp) and isinstance(e.op, ast.Not):
            return [((not b) if not isinstance(b, Raise) else b, s) for b, s in self.cond(e.operand, st)]
        if isinstance(e, ast.Compare):
            return self.compare_chain(e, st)
        res = []
        for v, s in self.ev(e, st):
            if isinstance(v, Raise):
                res.append((v, s))
            else:
                res.extend(self.truth(v, s, e))
        return res

    def truth(self, v: Val, st: State, node):
        if isinstance(v, (NoneV, NumV)) or (isinstance(v, Const) and isinstance(v.v, (int, float)) and not isinstance(v.v, bool)):
            self.hook('truth-val', st, node, val=v)
        if isinstance(v, NoneV):
            return [(False, st)]
        if isinstance(v, Const):
            return [(bool(v.v), st)]
        if isinstance(v, (ClsV, FuncV, BoundV, MethV, ModV, ExcV)):
            return [(True, st)]
        if isinstance(v, TupleV):
            return [(len(v.items) > 0, st)]
        if isinstance(v, Ref):
            e = st.get(v.sym)
            if isinstance(e, ObjE):
                return [(True, st)]
            if isinstance(e, ElemE):
                self.hook('elem-bool', st, node, elem=v)
                s2 = st.copy()
                self.stats['forks'] += 1
                if e.origin[0] == 'first' and e.parent:
                    # the construct is reported as a violation by itself (NO-ELEM-BOOL); to keep the number of
                    # continuations finite the childless-but-present case is merged with the absent case
                    s2.first[(e.parent, e.tag)] = 'ABSENT'
                return [(True, st), (False, s2)]
            if isinstance(e, ListE):
                return self.len_cmp(v.sym, '>', 0, st)
            if isinstance(e, IdxE):
                if e.kind == 'const':
                    return [(bool(e.const), st)]
                s2 = st.copy()
                return [(True, st), (False, s2)]
            if isinstance(e, DictE):
                if e.exact:
                    return [(len(e.items) > 0, st)]
        if isinstance(v, LenV):
            return self.len_cmp(v.sym, '>', 0, st)
        if isinstance(v, ExtV):
            if v.name.startswith('sentinel:') or v.name.startswith('singleton:'):
                return [(True, st)]
        if isinstance(v, StrV):
            # emptiness of a string value is remembered per value description (pure re-evaluations agree) until the
            # function that tested it returns
            k = self.vkey(v, st)
            known = self.str_fact(st, k)
            if known is not None:
                return [(known, st)]
            self.stats['forks'] += 1
            s2 = st.copy()
            d = len(st.frames)
            st.facts.add(('nonempty', k, d))
            s2.facts.add(('emptystr', k, d))
            self.hook('truth-fork', st, node, val=v, taken=True)
            self.hook('truth-fork', s2, node, val=v, taken=False)
            return [(True, st), (False, s2)]
        # unknown truthiness: fork
        self.stats['forks'] += 1
        s2 = st.copy()
        self.hook('truth-fork', st, node, val=v, taken=True)
        self.hook('truth-fork', s2, node, val=v, taken=False)
        return [(True, st), (False, s2)]

    def str_fact(self, st, k):
        for f in st.facts:
            if len(f) == 3 and f[1] == k:
                if f[0] == 'nonempty':
                    return True
                if f[0] == 'emptystr':
                    return False
        return None

    def propagate_len(self, lsym, st):
        """A 1:1 map over a source list has the same length: keep them in step."""
        e: ListE = st.get(lsym)
        if e.kind in ('map', 'reorder') and e.src and e.src in st.heap and 'filter' not in e.stages:
            src = st.get(e.src)
            if isinstance(src, ListE) and (src.lo, src.hi) != (e.lo, e.hi):
                st.put(e.src, replace(src, lo=max(src.lo, e.lo), hi=e.hi if src.hi is None else (src.hi if e.hi is None else min(src.hi, e.hi))))
                self.propagate_len(e.src, st)

    def compare_chain(self, e: ast.Compare, st: State):
        Raise = _Raise()
        if len(e.ops) != 1:
            # a < b < c : evaluate pairwise with conjunction
            parts = []
            left = e.left
            for op, right in zip(e.ops, e.comparators):
                parts.append(ast.copy_location(ast.Compare(left=left, ops=[op], comparators=[right]), e))
                left = right
            return self.cond(ast.copy_location(ast.BoolOp(op=ast.And(), values=parts), e), st)
        res = []
        for vs, s in self.ev_all([e.left, e.comparators[0]], st):
            if isinstance(vs, Raise):
                res.append((vs, s))
            else:
                res.extend(self.compare(e.ops[0], vs[0], vs[1], s, e))
        return res

    def _fork(self, st, node, what, **facts):
        self.stats['forks'] += 1
        return st, st.copy()

    def compare(self, op, l: Val, r: Val, st: State, node):
        opn = type(op).__name__
        if opn in ('Is', 'IsNot'):
            out = self.identical(l, r, st, node)
            return [((b if opn == 'Is' else not b), s) for b, s in out]
        if opn in ('Eq', 'NotEq'):
            out = self.equal(l, r, st, node)
            return [((b if opn == 'Eq' else (not b if not isinstance(b, _Raise()) else b)), s) for b, s in out]
        if opn in ('In', 'NotIn'):
            out = self.contains(r, l, st, node)
            return [((b if opn == 'In' else (not b if not isinstance(b, _Raise()) else b)), s) for b, s in out]
        sym = {'Lt': '<', 'LtE': '<=', 'Gt': '>', 'GtE': '>='}[opn]
        return self.order(sym, l, r, st, node)

    def identical(self, l, r, st, node):
        if isinstance(l, NoneV) and isinstance(r, NoneV):
            return [(True, st)]
        if isinstance(l, NoneV) or isinstance(r, NoneV):
            other = r if isinstance(l, NoneV) else l
            if isinstance(other, (Unknown, BoolV)) or (isinstance(other, ExtV) and other.name.startswith('result:')):
                # (the result of an opaque library call - `pattern.fullmatch(text)`, `mapping.get(key)` - may be None)
                s2 = st.copy()
                self.stats['forks'] += 1
                return [(True, st), (False, s2)]
            return [(False, st)]
        if isinstance(l, Ref) and isinstance(r, Ref):
            if l.sym == r.sym:
                return [(True, st)]
            if l.kind == 'elem' and r.kind == 'elem' and self.may_alias(l.sym, r.sym, st):
                s2 = st.copy()
                self.stats['forks'] += 1
                self.unify(st, l.sym, r.sym)
                s2.facts.add(('ne', min(l.sym, r.sym), max(l.sym, r.sym)))
                # `child is X` answered no for the current child of a traversal of P, X being an attached child of P: if every
                # iteration of that traversal says so, the traversal cannot end (see loop_exit)
                for it, x in ((l, r), (r, l)):
                    ie_, xe_ = s2.get(it.sym), s2.get(x.sym)
                    if ie_.origin and ie_.origin[0] == 'iterchild' and not (xe_.origin and xe_.origin[0] == 'iterchild') and xe_.attached is True and xe_.parent == ie_.parent:
                        m = dict(s2.mon.get('srchmiss') or {})
                        m[(len(s2.frames), s2.frame.loops)] = x.sym
                        s2.mon['srchmiss'] = m
                return [(True, st), (False, s2)]
            return [(False, st)]
        if isinstance(l, ExtV) and isinstance(r, ExtV):
            return [(l.name == r.name, st)]
        if isinstance(l, (ClsV, Const)) and isinstance(r, (ClsV, Const)):
            return [(l == r, st)]
        if isinstance(l, Unknown) or isinstance(r, Unknown):
            s2 = st.copy()
            self.stats['forks'] += 1
            return [(True, st), (False, s2)]
        return [(False, st)]

    def may_alias(self, a, b, st: State) -> bool:
        ea, eb = st.get(a), st.get(b)
        if not (isinstance(ea, ElemE) and isinstance(eb, ElemE)):
            return False
        if ('ne', min(a, b), max(a, b)) in st.facts:
            return False
        if ea.parent != eb.parent or ea.parent is None:
            return False
        if ea.tag is not None and eb.tag is not None and ea.tag != eb.tag:
            return False
        if ea.prov != eb.prov:
            return False
        ka, kb = ea.origin[0], eb.origin[0]
        searched = ('lookup', 'each', 'iterchild', 'nth', 'first')
        if ka in searched and kb in searched:
            if ka == 'nth' and kb == 'nth' and ea.origin[3] != eb.origin[3] and ea.origin[1:3] == eb.origin[1:3]:
                return False
            if ea.idsym and eb.idsym and ('strne', min(ea.idsym, eb.idsym), max(ea.idsym, eb.idsym)) in st.facts:
                return False
            return True
        return False

    def unify(self, st: State, a, b):
        """Record that symbols a and b denote the same node (replace b by a everywhere)."""
        def sub(v):
            if isinstance(v, Ref) and v.sym == b:
                return Ref(v.kind, a)
            if isinstance(v, TupleV):
                return TupleV(tuple(sub(x) for x in v.items))
            return v
        for f in st.frames:
            for k in list(f.env):
                f.env[k] = sub(f.env[k])
        for sym, e in list(st.heap.items()):
            if isinstance(e, IdxE) and e.anchor == b:
                st.heap[sym] = replace(e, anchor=a)
            elif isinstance(e, ListE) and e.items:
                st.heap[sym] = replace(e, items=tuple(sub(x) for x in e.items))
            elif isinstance(e, ObjE):
                st.heap[sym] = replace(e, fields=tuple((k, sub(v)) for k, v in e.fields))
        ea, eb = st.get(a), st.get(b)
        if eb.attached is not True and ea.attached is True:
            st.put(a, replace(ea, attached=eb.attached))
        st.facts.add(('same', a, b))

    def equal(self, l, r, st, node):
        if isinstance(l, Const) and isinstance(r, Const):
            return [(l.v == r.v, st)]
        # two literal lists: equal when they have the same length and equal items (compared as tuples)
        if isinstance(l, Ref) and isinstance(r, Ref) and l.kind == 'list' and r.kind == 'list' \
                and st.get(l.sym).kind == 'lit' and st.get(r.sym).kind == 'lit':
            return self.equal(TupleV(st.get(l.sym).items), TupleV(st.get(r.sym).items), st, node)
        if isinstance(l, NoneV) and isinstance(r, NoneV):
            return [(True, st)]
        if isinstance(l, (ClsV, ExtV)) and isinstance(r, (ClsV, ExtV)):
            return [(l == r, st)]
        if isinstance(l, TupleV) and isinstance(r, TupleV):
            if len(l.items) != len(r.items):
                return [(False, st)]
            outs = [(True, st)]
            for a, b in zip(l.items, r.items):
                nxt = []
                for ok, s in outs:
                    if not ok:
                        nxt.append((False, s))
                    else:
                        nxt.extend(self.equal(a, b, s, node))
                outs = nxt
            return outs
        for a, b in ((l, r), (r, l)):
            if isinstance(a, NoneV):
                if isinstance(b, (StrV, Const, NumV, Ref, TupleV, ClsV, LenV)):
                    return [(False, st)]
        if isinstance(l, Ref) and isinstance(r, Ref) and l.kind == r.kind == 'elem':
            return self.identical(l, r, st, node)
        if isinstance(l, Ref) and isinstance(r, Ref) and l.kind == r.kind == 'idx':
            return self.order('==', l, r, st, node)
        for a, b in ((l, r), (r, l)):
            if isinstance(a, LenV) and isinstance(b, Const) and isinstance(b.v, int):
                return self.len_cmp(a.sym, '==', b.v, st)
            if isinstance(a, Ref) and a.kind == 'idx' and isinstance(b, Const):
                return self.order('==', a, b, st, node)
        # string comparisons: fork, recording facts
        s2 = st.copy()
        self.stats['forks'] += 1
        for a, b in ((l, r), (r, l)):
            if isinstance(a, StrV) and a.origin and a.origin[0] == 'tag' and isinstance(b, Const):
                sym = a.origin[1][1]
                if sym in st.heap:
                    st.put(sym, replace(st.get(sym), tag=b.v))
                    s2.facts.add(('tagne', sym, b.v))
        if isinstance(l, StrV) and isinstance(r, StrV) and l.sym and r.sym:
            st.facts.add(('streq', min(l.sym, r.sym), max(l.sym, r.sym)))
            s2.facts.add(('strne', min(l.sym, r.sym), max(l.sym, r.sym)))
        self.hook('cmp-fork', st, node, left=l, right=r, taken=True)
        self.hook('cmp-fork', s2, node, left=l, right=r, taken=False)
        return [(True, st), (False, s2)]

    def contains(self, container, item, st, node):
        Raise = _Raise()
        # element in (a, b, *xs): Element equality is identity, so this is `is a or is b or in xs`
        if isinstance(item, Ref) and item.kind == 'elem':
            fixed, lists = None, []
            if isinstance(container, TupleV) and all(isinstance(x, (Ref, NoneV)) for x in container.items):
                fixed = container.items
            elif isinstance(container, Ref) and container.kind == 'list':
                le0 = st.get(container.sym)
                if le0.kind == 'chain' and isinstance(le0.spec, tuple) and le0.spec and all(isinstance(p, tuple) and p and p[0] in ('fixed', 'list') for p in le0.spec):
                    fixed = tuple(x for p in le0.spec if p[0] == 'fixed' for x in p[1])
                    lists = [p[1] for p in le0.spec if p[0] == 'list' and p[1] in st.heap]
                    if not all(isinstance(x, (Ref, NoneV)) for x in fixed):
                        fixed = None
            if fixed is not None:
                outs, cur = [], [st]
                for f in fixed:
                    nxt = []
                    for s in cur:
                        for b, s2 in self.identical(item, f, s, node):
                            (outs if b else nxt).append((True, s2) if b else s2)
                    cur = nxt
                for s in cur:
                    live = [L for L in lists if s.get(L).hi != 0]
                    if live:
                        s_in = s.copy()
                        self.stats['forks'] += 1
                        outs.append((True, s_in))
                    for L in lists + ([container.sym] if isinstance(container, Ref) else []):
                        s.facts.add(('notin', item.sym, L))
                    outs.append((False, s))
                return outs
        if isinstance(container, TupleV):
            items = container.items
            if all(isinstance(x, (Const, ClsV, NoneV, ExtV)) for x in items) and isinstance(item, (Const, ClsV, NoneV, ExtV)):
                return [(any(x == item for x in items), st)]
            if all(isinstance(x, Const) for x in items) and isinstance(item, StrV):
                s2 = st.copy()
                self.stats['forks'] += 1
                if item.origin and item.origin[0] == 'tag':
                    pass
                self.hook('in-fork', st, node, item=item, container=container, taken=True)
                self.hook('in-fork', s2, node, item=item, container=container, taken=False)
                return [(True, st), (False, s2)]
        if isinstance(container, Ref) and container.kind == 'dict':
            d: DictE = st.get(container.sym)
            if d.exact and isinstance(item, (Const, TupleV)) and all(isinstance(k, (Const, TupleV)) for k, _ in d.items):
                if self._is_concrete(item) and all(self._is_concrete(k) for k, _ in d.items):
                    return [(any(k == item for k, _ in d.items), st)]
            # membership of a non-literal key: remember the outcome for later subscripts with the same key value
            s2 = st.copy()
            self.stats['forks'] += 1
            kk = repr(self._vk(item, st))
            st.facts.add(('haskey', container.sym, kk))
            s2.facts.add(('nokey', container.sym, kk))
            return [(True, st), (False, s2)]
        if isinstance(container, Ref) and container.kind == 'list':
            le: ListE = st.get(container.sym)
            if le.hi == 0:
                if isinstance(item, Ref) and item.kind == 'elem':
                    st.facts.add(('notin', item.sym, container.sym))
                return [(False, st)]
            if le.kind == 'lit' and all(isinstance(x, Const) for x in le.items) and isinstance(item, Const):
                return [(item in le.items, st)]
        if isinstance(container, NoneV):
            return [(self.exc('TypeError', st, node, "argument of type 'NoneType' is not iterable"), st)]
        s2 = st.copy()
        self.stats['forks'] += 1
        if isinstance(container, Ref) and container.kind == 'list' and isinstance(item, Ref) and item.kind == 'elem':
            s2.facts.add(('notin', item.sym, container.sym))
        self.hook('in-fork', st, node, item=item, container=container, taken=True)
        self.hook('in-fork', s2, node, item=item, container=container, taken=False)
        return [(True, st), (False, s2)]

    def _is_concrete(self, v):
        if isinstance(v, (Const, ClsV)):
            return True
        if isinstance(v, TupleV):
            return all(self._is_concrete(x) for x in v.items)
        return False

    def order(self, sym, l, r, st, node):
        """<, <=, >, >=, == on numbers / indices / lengths."""
        flip = {'<': '>', '<=': '>=', '>': '<', '>=': '<=', '==': '=='}
        if isinstance(l, Const) and isinstance(r, Const):
            try:
                return [({'<': l.v < r.v, '<=': l.v <= r.v, '>': l.v > r.v, '>=': l.v >= r.v, '==': l.v == r.v}[sym], st)]
            except TypeError:
                return [(self.exc('TypeError', st, node, 'unorderable constants'), st)]
        if isinstance(l, LenV) and isinstance(r, Const) and isinstance(r.v, int):
            return self.len_cmp(l.sym, sym, r.v, st)
        if isinstance(r, LenV) and isinstance(l, Const) and isinstance(l.v, int):
            return self.len_cmp(r.sym, flip[sym], l.v, st)
        if isinstance(l, NoneV) or isinstance(r, NoneV):
            if sym == '==':
                return [(isinstance(l, NoneV) and isinstance(r, NoneV), st)]
            return [(self.exc('TypeError', st, node, "ordering comparison with None"), st)]
        if isinstance(l, Ref) and l.kind == 'idx' and isinstance(r, Ref) and r.kind == 'idx':
            return self.idx_order(sym, l.sym, r.sym, st, node)
        s2 = st.copy()
        self.stats['forks'] += 1
        return [(True, st), (False, s2)]

    def idx_order(self, sym, a, b, st: State, node):
        ea, eb = st.get(a), st.get(b)
        if a == b:
            return [(sym in ('<=', '>=', '=='), st)]
        same_parent = ea.parent is not None and ea.parent == eb.parent
        valid = lambda e: e.kind in ('fresh', 'slot') and e.delta == 0   # noqa: E731
        if same_parent and valid(ea) and eb.kind == 'end' and eb.slack >= 0 and eb.delta == 0:
            return [({'<': True, '<=': True, '>': False, '>=': False, '==': False}[sym], st)]
        if same_parent and valid(eb) and ea.kind == 'end' and ea.slack >= 0 and ea.delta == 0:
            return [({'<': False, '<=': False, '>': True, '>=': True, '==': False}[sym], st)]
        s2 = st.copy()
        self.stats['forks'] += 1
        if same_parent and ea.kind == 'fresh' and eb.kind == 'fresh' and ea.delta == 0 and eb.delta == 0 \
                and ea.anchor and eb.anchor:
            # record relative document order of the two anchors
            x, y = ea.anchor, eb.anchor
            alias = self.may_alias(x, y, st)

            def add(s, rel):
                s.facts.add((rel, x, y))
            if sym == '<':
                add(st, 'before'); add(s2, 'notbefore')
            elif sym == '>=':
                add(st, 'notbefore'); add(s2, 'before')
            elif sym == '>':
                st.facts.add(('before', y, x)); s2.facts.add(('notbefore', y, x))
            elif sym == '<=':
                st.facts.add(('notbefore', y, x)); s2.facts.add(('before', y, x))
            elif sym == '==':
                if alias:
                    pass
            if sym in ('<', '>') and x != y:
                st.facts.add(('ne', min(x, y), max(x, y)))
            if sym in ('<=', '>=') and x != y:
                s2.facts.add(('ne', min(x, y), max(x, y)))
        return [(True, st), (False, s2)]

    # ------------------------------------------------------ element access
    def child_presence(self, pe: ElemE, tag: str) -> bool:
        if not pe.schema:
            return False
        ptag = pe.stag or pe.tag
        if (ptag, tag) in schema.REQUIRED:
            return True
        return False

    def min_count(self, pe: ElemE, tag: str) -> int:
        if not pe.schema:
            return 0
        return schema.MIN_COUNT.get((pe.stag or pe.tag, tag), 0)

    def elem_find(self, p: Ref, tag: str, st: State, node):
        pe: ElemE = st.get(p.sym)
        if any(ch in tag for ch in '/[.*'):
            # path query: some descendant, optional
            self.stats['forks'] += 1
            s2 = st.copy()
            sym = st.new(ElemE(pe.prov, None, None, True, ('path', S(p.sym), tag), schema=pe.schema))
            self.hook('find', st, node, parent=p, tag=tag, result=Ref('elem', sym), path=True)
            return [(Ref('elem', sym), st), (NoneV(('absent', S(p.sym), tag)), s2)]
        key = (p.sym, tag)
        if key in st.first:
            c = st.first[key]
            if c == 'ABSENT':
                return [(NoneV(('absent', S(p.sym), tag)), st)]
            if c in st.heap:
                return [(Ref('elem', c), st)]
        required = self.child_presence(pe, tag) or self.force_present(p, tag, st)
        outs = []
        if not required:
            s2 = st.copy()
            s2.first[key] = 'ABSENT'
            self.stats['forks'] += 1
            outs.append((NoneV(('absent', S(p.sym), tag)), s2))
        child_schema = pe.schema
        if pe.origin[0] == 'root' and pe.prov == 'MSG' and st.mon.get('envelope_only') \
                and tag in (st.mon.get('sym:rootreq') or {}).get(p.sym, ()):
            child_schema = False      # only the envelope (messageID, message element) is assumed; nothing below it
        sym = st.new(ElemE(pe.prov, tag, p.sym, True, ('first', S(p.sym), tag), schema=child_schema))
        st.first[key] = sym
        self.hook('find', st, node, parent=p, tag=tag, result=Ref('elem', sym), path=False)
        outs.insert(0, (Ref('elem', sym), st))
        return outs

    def force_present(self, p, tag, st):
        req = st.mon.get('sym:rootreq')
        return bool(req) and tag in req.get(p.sym, ())

    def elem_findall(self, p: Ref, tag: str, st: State, node):
        pe: ElemE = st.get(p.sym)
        if any(ch in tag for ch in '/[.*'):
            sym = st.new(ListE('findall', 0, None, None, tag, ordered=True, stages=('path',)))
            return [(Ref('list', sym), st)]
        ov = (st.mon.get('findall_override') or {}).get((p.sym, tag))
        if ov is not None and ov in st.heap:
            return [(Ref('list', ov), st)]
        lo = self.min_count(pe, tag)
        hi = None
        if (p.sym, tag) in st.first and st.first[(p.sym, tag)] == 'ABSENT':
            hi = 0
            lo = 0
        elif (p.sym, tag) in st.first:
            lo = max(lo, 1)
        sym = st.new(ListE('findall', lo, hi, p.sym, tag, stages=(f'findall({tag!r})',)))
        return [(Ref('list', sym), st)]

    def elem_text(self, o: Ref, st: State, node):
        e: ElemE = st.get(o.sym)
        if e.text is not None:
            return [(e.text, st)]
        tsym = self.text_sym(o.sym, st)
        mode = self.text_mode(e, st)
        if mode == 'str':
            return [(StrV(('text', S(o.sym)), tsym), st)]
        memo = st.mon.get('sym:textnull') or {}
        if o.sym in memo:
            if memo[o.sym]:
                return [(NoneV(('blank', S(o.sym))), st)]
            return [(StrV(('text', S(o.sym)), tsym), st)]
        s2 = st.copy()
        self.stats['forks'] += 1
        for s, val in ((st, False), (s2, True)):
            m = dict(s.mon.get('sym:textnull') or {})
            m[o.sym] = val
            s.mon['sym:textnull'] = m
        return [(StrV(('text', S(o.sym)), tsym), st), (NoneV(('blank', S(o.sym))), s2)]

    def text_mode(self, e: ElemE, st):
        if e.tag in schema.NONBLANK_TAGS and e.schema:
            return 'str'
        if e.tag in schema.VALUE_TAGS and e.schema:
            return 'str'
        return 'opt'

    def text_sym(self, esym, st: State) -> int:
        key = ('textsym', esym)
        m = st.mon.setdefault('textsyms', {})
        if esym not in m:
            st.serial += 1
            m[esym] = st.serial
        return m[esym]

    def model_getattr(self, o: Val, name: str, st: State, node):
        if isinstance(o, Ref) and o.kind == 'elem':
            e: ElemE = st.get(o.sym)
            if name == 'text':
                return self.elem_text(o, st, node)
            if name == 'tag':
                if e.tag is not None:
                    return [(Const(e.tag), st)]
                return [(StrV(('tag', S(o.sym))), st)]
            if name == 'attrib':
                sym = st.new(DictE((), False))
                st.mon.setdefault('attrib_of', {})[sym] = o.sym
                return [(Ref('dict', sym), st)]
            if name == 'tail':
                s2 = st.copy()
                return [(StrV(('tail', S(o.sym))), st), (NoneV(), s2)]
            return [(MethV(o, name), st)]
        if isinstance(o, (StrV, NumV, LenV)) or isinstance(o, Const) or (isinstance(o, Ref) and o.kind in ('list', 'dict', 'idx')):
            return [(MethV(o, name), st)]
        if isinstance(o, (TupleV, FuncV, BoundV, MethV, IterV, BoolV)):
            return [(MethV(o, name), st)]
        raise AnalysisError(f'attribute {name} of {type(o).__name__} at line {getattr(node, "lineno", "?")}')

    def model_setattr_elem(self, o: Ref, name, val, st: State, node):
        e: ElemE = st.get(o.sym)
        self.hook('elem-store', st, node, elem=o, attr=name, value=val)
        if name == 'tag':
            if isinstance(val, Const):
                st.put(o.sym, replace(e, tag=val.v, stag=e.stag or e.tag))
                if e.parent:
                    for k in [k for k in st.first if k[0] == e.parent]:
                        del st.first[k]
            else:
                st.put(o.sym, replace(e, tag=None, stag=e.stag or e.tag))
        elif name == 'text':
            st.put(o.sym, replace(e, text=val))
        return [(NoneV(), st)]

    # ------------------------------------------------------- tree mutation
    def parent_indices(self, p_sym, st: State):
        return [(s, e) for s, e in st.heap.items() if isinstance(e, IdxE) and e.parent == p_sym]

    def invalidate_parent(self, p_sym, n_sym, st: State):
        ne = st.heap.get(n_sym)
        tag = ne.tag if isinstance(ne, ElemE) else None
        for k in [k for k in st.first if k[0] == p_sym and (tag is None or k[1] == tag)]:
            del st.first[k]

    def do_remove(self, p: Ref, n: Val, st: State, node):
        """P.remove(n) -> [(NoneV | Raise, st)]"""
        if not (isinstance(n, Ref) and n.kind == 'elem'):
            if isinstance(n, NoneV):
                return [(self.exc('TypeError', st, node, 'remove() argument must be Element, not None'), st)]
            self.note('remove of non-element value')
            return [(NoneV(), st)]
        ne: ElemE = st.get(n.sym)
        outs = []
        # may the node be absent from this parent?
        certain = ne.parent == p.sym and ne.attached is True
        if not certain:
            if ne.parent is not None and ne.parent != p.sym and ne.attached is True and not self.same_node(ne.parent, p.sym, st):
                self.hook('remove-foreign', st, node, parent=p, node_=n)
            s_fail = st.copy()
            self.stats['forks'] += 1
            outs.append((self.exc('ValueError', s_fail, node, 'list.remove(x): x not in list'), s_fail))
            if ne.attached is False and ne.parent == p.sym:
                return outs
        self.hook('remove', st, node, parent=p, node_=n)
        # aliases: other looked-up nodes that may be this very node are now possibly detached
        skip = set()
        src_list = (st.mon.get('sym:fromlist') or {}).get(n.sym)
        if src_list is not None and src_list in st.heap and st.get(src_list).distinct:
            # the templates of a list of pairwise distinct nodes stand for the *other* elements
            skip = {x.sym for x in st.get(src_list).items if isinstance(x, Ref)}
        for sym, e in list(st.heap.items()):
            if sym != n.sym and sym not in skip and isinstance(e, ElemE) and e.attached is True and self.may_alias(sym, n.sym, st) \
                    and e.born < self._now_marker(st, n.sym):
                st.put(sym, replace(e, attached='maybe'))
        # index typestate
        for sym, e in self.parent_indices(p.sym, st):
            e2 = self.idx_after_remove(e, n.sym, st)
            st.put(sym, e2)
            self.retally(st, sym, e, e2)
        for k in [k for k in st.facts if k[0] in ('before', 'notbefore') and n.sym in k[1:]]:
            st.facts.discard(k)
        st.put(n.sym, replace(st.get(n.sym), attached=False, parent=p.sym))
        self.invalidate_parent(p.sym, n.sym, st)
        st.lookups = {k: v for k, v in st.lookups.items() if v != n.sym}
        self.log_mut(st, ('remove', p.sym, n.sym, None))
        outs.append((NoneV(), st))
        return outs

    def same_node(self, a, b, st):
        return a == b or ('same', a, b) in st.facts or ('same', b, a) in st.facts

    def _now_marker(self, st, nsym):
        # lookups performed after a removal cannot return the removed node: only older symbols alias
        return st.serial + 1

    def idx_after_remove(self, e: IdxE, n_sym, st: State) -> IdxE:
        if e.succ is not None:
            e = replace(e, succ=None)
        if e.kind == 'end':
            return replace(e, slack=min(e.slack + 1, 3))
        if e.kind == 'fresh':
            if e.anchor == n_sym:
                return replace(e, kind='slot')
            if ('before', n_sym, e.anchor) in st.facts:
                return replace(e, delta=min(e.delta + 1, 3))
            if ('notbefore', n_sym, e.anchor) in st.facts or ('before', e.anchor, n_sym) in st.facts:
                return e
            return replace(e, kind='stale', why=f'{self.describe(Ref("elem", n_sym), st)} was removed from the same parent after this index was taken')
        if e.kind == 'slot':
            return replace(e, kind='stale', why=f'{self.describe(Ref("elem", n_sym), st)} was removed after this position was taken')
        return e

    def idx_after_insert(self, e: IdxE, at: Optional[IdxE], st: State) -> IdxE:
        """Effect on another live index of the same parent of an insertion at *at*."""
        if e.succ is not None:
            e = replace(e, succ=None)
        if e.kind == 'end':
            return replace(e, slack=max(e.slack - 1, -3), ins=min(e.ins + 1, 3))
        if e.kind in ('fresh', 'slot'):
            if at is not None and at.kind == 'end' and at.delta == 0 and at.slack >= 0:
                return e        # appended behind every existing child
            if e.kind == 'fresh' and at is not None and at.kind == 'fresh' and at.delta == 0 and at.anchor is not None and at.anchor == e.anchor:
                # inserted exactly in front of this index's anchor: the value now lies one more place before the anchor
                return replace(e, delta=max(e.delta - 1, -3), ins=min(e.ins + 1, 3))
            return replace(e, kind='stale', why='a node was inserted into the same parent after this index was taken')
        return e

    def retally(self, st: State, sym, old: IdxE, new: IdxE, inserted_at=None):
        """keep `tally == inserts at <sym>'s anchor - lag` true across a change of index *sym* (or give the tally up)"""
        from .domains import TallyV
        shifted = False
        if inserted_at is not None and new.kind == old.kind:
            if old.kind == 'end':
                shifted = True
            elif old.kind == 'fresh':
                shifted = inserted_at.kind == 'fresh' and inserted_at.delta == 0 and inserted_at.anchor is not None and inserted_at.anchor == old.anchor
        if not shifted and new == old:
            return
        for f in st.frames:
            for name, v in list(f.env.items()):
                if isinstance(v, TallyV) and v.base == sym:
                    f.env[name] = TallyV(v.origin, v.base, v.lag + 1) if shifted and abs(v.lag + 1) <= 3 else NumV(('counter', name))

    def dirty_snapshots(self, st: State, p_sym):
        for sym, e in list(st.heap.items()):
            if isinstance(e, ListE) and e.parent == p_sym and e.kind in ('children', 'findall') and not e.dirty:
                st.heap[sym] = replace(e, dirty=True)

    def log_mut(self, st: State, rec):
        if rec[1] is not None:
            self.dirty_snapshots(st, rec[1])
            if rec[1] in (st.mon.get('livedepth') or {}).values() and rec[0] != 'setitem':
                self.hook('live-mutation', st, None, parent=Ref('elem', rec[1]), op=rec[0])
        logs = st.mon.get('itlog')
        if logs:
            st.mon['itlog'] = {d: (l + (rec,))[-6:] for d, l in logs.items()}

    def check_index(self, p: Ref, idx: Val, st: State, node, what):
        """Validate an index operand of insert/setitem.  Returns the IdxE or None."""
        if isinstance(idx, Ref) and idx.kind == 'idx':
            ie: IdxE = st.get(idx.sym)
            self.hook('index-use', st, node, parent=p, idx=idx, entry=ie, what=what)
            return ie
        self.hook('index-use', st, node, parent=p, idx=idx, entry=None, what=what)
        return None

    def do_insert(self, p: Ref, idx: Val, n: Val, st: State, node):
        if isinstance(idx, NoneV):
            return [(self.exc('TypeError', st, node, "'NoneType' object cannot be interpreted as an integer"), st)]
        if isinstance(n, NoneV):
            return [(self.exc('TypeError', st, node, 'insert() argument must be Element, not None'), st)]
        if not (isinstance(n, Ref) and n.kind == 'elem'):
            self.note(f'insert of non-element value {type(n).__name__}')
            self.hook('insert', st, node, parent=p, node_=n, idx=idx, entry=None)
            return [(NoneV(), st)]
        ie = self.check_index(p, idx, st, node, 'insert')
        self.hook('insert', st, node, parent=p, node_=n, idx=idx, entry=ie)
        for sym, e in self.parent_indices(p.sym, st):
            if isinstance(idx, Ref) and sym == idx.sym:
                continue
            e2 = self.idx_after_insert(e, ie, st)
            st.put(sym, e2)
            self.retally(st, sym, e, e2, inserted_at=ie)
        if isinstance(idx, Ref) and idx.kind == 'idx' and ie is not None:
            if ie.kind == 'end' and ie.slack > 0:
                st.put(idx.sym, replace(ie, slack=ie.slack - 1))
            elif ie.kind in ('fresh', 'slot', 'end'):
                succ = (ie.kind, ie.anchor, ie.slack) if ie.delta == 0 else None
                st.put(idx.sym, replace(ie, kind='fresh', anchor=n.sym, parent=p.sym, slack=0, succ=succ))
        self.attach(p, n, st)
        self.log_mut(st, ('insert', p.sym, n.sym, idx.sym if isinstance(idx, Ref) else None))
        return [(NoneV(), st)]

    def attach(self, p: Ref, n: Ref, st: State):
        ne: ElemE = st.get(n.sym)
        st.put(n.sym, replace(ne, attached=True, parent=p.sym))
        was_absent = ne.tag is not None and st.first.get((p.sym, ne.tag)) == 'ABSENT'
        self.invalidate_parent(p.sym, n.sym, st)
        if was_absent:
            st.first[(p.sym, ne.tag)] = n.sym        # the only child with that tag is now the first one
        st.lookups = {k: v for k, v in st.lookups.items() if k[0] != p.sym}

    def do_append(self, p: Ref, n: Val, st: State, node):
        if isinstance(n, NoneV):
            return [(self.exc('TypeError', st, node, 'append() argument must be Element, not None'), st)]
        if not (isinstance(n, Ref) and n.kind == 'elem'):
            self.note('append of non-element value')
            self.hook('append', st, node, parent=p, node_=n)
            return [(NoneV(), st)]
        self.hook('append', st, node, parent=p, node_=n)
        endidx = IdxE('end', p.sym)
        for sym, e in self.parent_indices(p.sym, st):
            st.put(sym, self.idx_after_insert(e, endidx, st))
        self.attach(p, n, st)
        self.log_mut(st, ('append', p.sym, n.sym, None))
        return [(NoneV(), st)]

    def model_setitem(self, c: Val, i: Val, val: Val, st: State, node):
        if isinstance(c, Ref) and c.kind == 'list' and c.sym in (st.mon.get('lastapp') or {}):
            st.mon['lastapp'] = {k: v for k, v in st.mon['lastapp'].items() if k != c.sym}
        if isinstance(c, Ref) and c.kind == 'elem':
            if isinstance(i, NoneV):
                return [(self.exc('TypeError', st, node, 'indices must be integers'), st)]
            ie = self.check_index(c, i, st, node, 'setitem')
            self.hook('setitem', st, node, parent=c, node_=val, idx=i, entry=ie)
            if ie is not None and ie.kind == 'fresh' and ie.anchor and ie.anchor in st.heap:
                old = st.get(ie.anchor)
                st.put(ie.anchor, replace(old, attached=False))
            if isinstance(val, Ref) and val.kind == 'elem':
                self.attach(c, val, st)
                if isinstance(i, Ref) and ie is not None:
                    st.put(i.sym, replace(ie, anchor=val.sym))
            self.log_mut(st, ('setitem', c.sym, val.sym if isinstance(val, Ref) else None, i.sym if isinstance(i, Ref) else None))
            return [(NoneV(), st)]
        if isinstance(c, Ref) and c.kind == 'dict':
            d: DictE = st.get(c.sym)
            self.hook('dict-store', st, node, dict=c, key=i, value=val)
            if self._is_concrete(i) and d.exact:
                items = tuple((k, v) for k, v in d.items if k != i) + ((i, val),)
                st.put(c.sym, DictE(items, True, d.born))
            else:
                # summarise: one entry per abstract key/value shape
                gk = i
                if isinstance(i, (StrV, NoneV)):
                    gk = StrV(('dict-key',))
                if isinstance(val, Const) and isinstance(val.v, (int, float)) and not isinstance(val.v, bool):
                    val = NumV()
                items = d.items
                if not any(k == gk and self._vk(v, st) == self._vk(val, st) for k, v in items):
                    items = items + ((gk, val),)
                st.put(c.sym, DictE(items, False, d.born))
            return [(NoneV(), st)]
        if isinstance(c, Ref) and c.kind == 'list':
            le: ListE = st.get(c.sym)
            st.put(c.sym, replace(le, kind='accum' if le.kind != 'lit' else 'lit', items=le.items + (val,) if le.kind != 'lit' else le.items))
            return [(NoneV(), st)]
        if isinstance(c, NoneV):
            return [(self.exc('TypeError', st, node, "'NoneType' object does not support item assignment"), st)]
        self.note('item store on ' + type(c).__name__)
        return [(NoneV(), st)]

    def model_slice_store(self, c, slc, bounds, val, st: State, node):
        if isinstance(c, Ref) and c.kind == 'list' and c.sym in (st.mon.get('lastapp') or {}):
            st.mon['lastapp'] = {k: v for k, v in st.mon['lastapp'].items() if k != c.sym}
        """parent[a:b] = nodes : replaces the whole range of existing children by the given nodes"""
        if isinstance(c, Ref) and c.kind == 'elem':
            width = self._slice_width(bounds, st)
            if width in (0, 1) and 'step' not in bounds and isinstance(bounds.get('lower'), Ref) and isinstance(val, (Ref, TupleV)):
                return self._slice_as_inserts(c, bounds['lower'], width, val, st, node)
            self.hook('slice-store', st, node, parent=c, slice=norm(slc) if hasattr(slc, 'lower') else '?', value=val)
            for sym, e in self.parent_indices(c.sym, st):
                if e.kind in ('fresh', 'slot', 'end'):
                    st.put(sym, replace(e, kind='stale', why='children were replaced by a slice assignment'))
            self.invalidate_parent(c.sym, -1, st)
            self.log_mut(st, ('setitem', c.sym, None, None))
            return [(NoneV(), st)]
        if isinstance(c, Ref) and c.kind == 'list':
            le = st.get(c.sym)
            st.put(c.sym, replace(le, kind='accum' if le.kind != 'lit' else 'accum', lo=0, hi=None))
            return [(NoneV(), st)]
        if isinstance(c, NoneV):
            return [(self.exc('TypeError', st, node, "'NoneType' object does not support item assignment"), st)]
        self.note('slice store on ' + type(c).__name__)
        return [(NoneV(), st)]

    def _slice_width(self, bounds, st: State):
        """0 for parent[i:i], 1 for parent[i:i+1] (both bounds derived from the same index), else None"""
        lo, up = bounds.get('lower'), bounds.get('upper')
        if not (isinstance(lo, Ref) and lo.kind == 'idx' and isinstance(up, Ref) and up.kind == 'idx'):
            return None
        if lo.sym == up.sym:
            return 0
        a, b = st.get(lo.sym), st.get(up.sym)
        if a.kind == b.kind and a.parent == b.parent and a.anchor == b.anchor and a.kind in ('fresh', 'slot'):
            d = b.delta - a.delta
            return d if d in (0, 1) else None
        if a.kind == 'end' and b.kind == 'end' and a.parent == b.parent:
            d = b.slack - a.slack
            return d if d in (0, 1) else None
        return None

    def _slice_as_inserts(self, p: Ref, idx: Ref, width: int, val, st: State, node):
        """parent[i:i] = nodes inserts the nodes, in order, at i; parent[i:i+1] = nodes first removes the child at i."""
        Raise = _Raise()
        outs = [(NoneV(), st)]
        if width == 1:
            ie = st.get(idx.sym)
            if ie.kind == 'fresh' and ie.delta == 0 and ie.anchor in st.heap:
                outs = self.do_remove(p, Ref('elem', ie.anchor), st, node)
            else:
                self.hook('remove-by-index', st, node, parent=p, idx=idx, entry=ie)
        res = []
        for v, s in outs:
            if isinstance(v, Raise):
                res.append((v, s))
                continue
            # the nodes are inserted at an advancing position, exactly like ``for k, n in enumerate(nodes, start=i)``
            start = Ref('idx', idx.sym)
            itval = IterV('enumerate', val, start)

            def body(elem, s2):
                counter, n = elem.items
                rs = self.do_insert(p, counter, n, s2, node)
                return [((('raise', r.exc) if isinstance(r, Raise) else 'next'), s3) for r, s3 in rs]
            exits, escapes = self.run_loop(itval, s, body, node)
            res.extend((NoneV(), s2) for _, s2 in exits)
            res.extend((Raise(ctl[1]), s2) for ctl, s2 in escapes if isinstance(ctl, tuple) and ctl[0] == 'raise')
        return res

    def model_delitem(self, c, i, st, node):
        if isinstance(c, Ref) and c.kind == 'list' and c.sym in (st.mon.get('lastapp') or {}):
            st.mon['lastapp'] = {k: v for k, v in st.mon['lastapp'].items() if k != c.sym}
        if isinstance(c, Ref) and c.kind == 'elem' and isinstance(i, Ref) and i.kind == 'idx':
            ie: IdxE = st.get(i.sym)
            self.check_index(c, i, st, node, 'delitem')
            if ie.kind == 'fresh' and ie.anchor and ie.delta == 0:
                return self.do_remove(c, Ref('elem', ie.anchor), st, node)
            self.hook('remove-by-index', st, node, parent=c, idx=i, entry=ie)
            self.log_mut(st, ('remove', c.sym, None, i.sym))
            for sym, e in self.parent_indices(c.sym, st):
                if e.kind in ('fresh', 'slot'):
                    st.put(sym, replace(e, kind='stale', why='a child was deleted by position'))
            return [(NoneV(), st)]
        self.note('del item on ' + type(c).__name__)
        return [(NoneV(), st)]
