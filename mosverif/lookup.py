"""Search-function summaries.

Any module-level function of the repository that behaves like "return the child
of <parent> with tag <tag> (and id <id>) together with its index" is recognised
by *interpreting its body* with symbolic arguments and classifying the
outcomes.  Calls to such a function are then executed through the summary
(``do_lookup``), which gives the rule engines first-class lookup events.  The
summary is recomputed from /repo on every run: if ``find_child`` starts
returning ``i + 1`` or searching descendants, every merge is judged against
*that* behaviour.
"""
from __future__ import annotations

from dataclasses import dataclass, field, replace
from typing import Dict, List, Optional

from .domains import Const, ElemE, IdxE, NoneV, Ref, S, State, StrV, TupleV, Unknown
from .front import AnalysisError, FuncInfo


@dataclass
class SearchSummary:
    func: FuncInfo
    params: List[str]
    hit_shape: str = 'tuple'          # tuple | elem
    index: str = 'fresh'              # fresh | off:<d> | foreign:<why> | none
    direct: bool = True
    ordered: bool = True
    id_match: bool = True             # with a string id, hits are constrained to equal ids
    none_mode: str = 'wildcard'       # explicit None: wildcard | blank | never
    default_mode: str = 'wildcard'    # id omitted
    raises: List[str] = field(default_factory=list)
    problems: List[str] = field(default_factory=list)

    def as_dict(self):
        return {'function': self.func.short, 'file': self.func.file, 'hit_shape': self.hit_shape, 'index': self.index,
                'direct_children_only': self.direct, 'first_match_in_document_order': self.ordered,
                'id_equality': self.id_match, 'explicit_None_id': self.none_mode, 'omitted_id': self.default_mode,
                'may_raise': self.raises, 'problems': self.problems}


ID_PROBE = 987654


class LookupMixin:
    summaries: Dict[str, SearchSummary]

    def build_summaries(self):
        from .harness import base_state, new_root
        from .interp import Interp, Raise
        self.summaries = {}
        for fi in self.prog.all_functions():
            if fi.cls is not None or fi.kind != 'function':
                continue
            a = fi.node.args
            params = [p.arg for p in a.posonlyargs + a.args]
            if not (2 <= len(params) <= 3) or a.vararg or a.kwarg or a.kwonlyargs:
                continue
            try:
                summ = self._classify_search(fi, params)
            except (AnalysisError, RecursionError, KeyError, AttributeError, TypeError, IndexError, ValueError):
                summ = None      # not interpretable with probe arguments: not a search function
            if summ is not None:
                self.summaries[fi.qualname] = summ

    def _probe(self, fi, params, idmode):
        from .harness import base_state, new_root
        from .interp import Interp
        sub = Interp(self.prog, entry=f'summary:{fi.short}')
        st = base_state(sub)
        P = new_root(st, 'RO', 'PROBE')
        st.put(P.sym, replace(st.get(P.sym), tag='roCreate'))
        args = [P, Const('story')]
        if len(params) == 3:
            if idmode == 'str':
                args.append(StrV(('probe-id',), ID_PROBE))
            elif idmode == 'none':
                args.append(NoneV(('probe-none',)))
        outs = sub.call_function(fi, args, {}, st, fi.node)
        return P, outs, sub

    def _classify_search(self, fi: FuncInfo, params) -> Optional[SearchSummary]:
        from .interp import Raise
        summ = SearchSummary(fi, params)
        modes = ['str', 'none', 'default'] if len(params) == 3 else ['default']
        hit_seen = False
        for mode in modes:
            P, outs, sub = self._probe(fi, params, mode)
            hits, misses = [], 0
            for v, s in outs:
                if isinstance(v, Raise):
                    if v.exc.cls not in summ.raises:
                        summ.raises.append(v.exc.cls)
                    continue
                node, idx, shape = None, None, None
                if isinstance(v, TupleV) and len(v.items) == 2:
                    a, b = v.items
                    if isinstance(a, Ref) and a.kind == 'elem':
                        node, idx, shape = a, b, 'tuple'
                    elif isinstance(a, NoneV) and isinstance(b, NoneV):
                        misses += 1
                        continue
                    else:
                        return None
                elif isinstance(v, Ref) and v.kind == 'elem':
                    node, shape = v, 'elem'
                elif isinstance(v, NoneV):
                    misses += 1
                    continue
                else:
                    return None
                ne: ElemE = s.get(node.sym)
                if ne.origin[0] not in ('iterchild', 'each', 'iterchild-unordered', 'each-unordered', 'first', 'path'):
                    return None
                if ne.origin[0] in ('first', 'path') and mode == 'str':
                    return None
                hits.append((node, idx, shape, s))
            if mode == 'str':
                if not hits or not misses:
                    return None          # not a search function
                hit_seen = True
                for node, idx, shape, s in hits:
                    ne = s.get(node.sym)
                    summ.hit_shape = shape
                    if ne.tag != 'story':
                        summ.problems.append('a returned child is not constrained to the requested tag')
                    if ne.origin[0].endswith('-unordered'):
                        summ.ordered = False
                    if ne.parent != P.sym or ne.origin[0] == 'path':
                        summ.direct = False
                    if not any(f[0] == 'streq' and ID_PROBE in f[1:] for f in s.facts):
                        summ.id_match = False
                    summ.index = self._index_class(idx, node, P, s) if shape == 'tuple' else 'none'
            else:
                kinds = set()
                for node, idx, shape, s in hits:
                    compared = any(k[0] == node.sym for k in s.first)
                    kinds.add('blank' if compared else 'wildcard')
                m = 'never' if not hits else ('wildcard' if 'wildcard' in kinds else 'blank')
                if mode == 'none':
                    summ.none_mode = m
                else:
                    summ.default_mode = m
        if len(params) == 2:
            # tag-only search: classified from the default probe
            P, outs, sub = self._probe(fi, params, 'default')
            ok = False
            for v, s in outs:
                if isinstance(v, TupleV) and len(v.items) == 2 and isinstance(v.items[0], Ref) and v.items[0].kind == 'elem':
                    ne = s.get(v.items[0].sym)
                    if ne.origin[0] in ('iterchild', 'each') and ne.tag == 'story':
                        ok = True
                        summ.index = self._index_class(v.items[1], v.items[0], P, s)
            if not ok:
                return None
            summ.id_match = False
            return summ
        return summ if hit_seen else None

    def _index_class(self, idx, node, P, s: State) -> str:
        if isinstance(idx, Ref) and idx.kind == 'idx':
            ie: IdxE = s.get(idx.sym)
            if ie.kind == 'fresh' and ie.parent == P.sym and ie.anchor == node.sym:
                return 'fresh' if ie.delta == 0 else f'off:{ie.delta:+d}'
            if ie.kind == 'fresh':
                return 'foreign:index of another node or parent'
            return f'foreign:{ie.why or ie.kind}'
        if isinstance(idx, NoneV):
            return 'none'
        return f'foreign:{type(idx).__name__}'

    # ------------------------------------------------------------- execution
    def do_lookup(self, summ: SearchSummary, args, kwargs, st: State, node):
        from .interp import Raise
        fi = summ.func
        vals = {}
        for name, v in zip(summ.params, args):
            vals[name] = v
        for k, v in kwargs.items():
            if k not in summ.params:
                return [(self.exc('TypeError', st, node, f'unexpected keyword {k}'), st)]
            vals[k] = v
        if any(p not in vals for p in summ.params[:2]):
            return [(self.exc('TypeError', st, node, f'missing argument for {fi.short}'), st)]
        P, tagv = vals[summ.params[0]], vals[summ.params[1]]
        idv = vals.get(summ.params[2]) if len(summ.params) == 3 else None
        if isinstance(P, NoneV):
            return [(self.exc('TypeError', st, node, f"{fi.short}: 'NoneType' object is not iterable ({self.describe(P, st)})"), st)]
        if not (isinstance(P, Ref) and P.kind == 'elem'):
            self.note(f'{fi.short} called with a non-element parent')
            return [(TupleV((Unknown('lookup'), Unknown('lookup'))) if summ.hit_shape == 'tuple' else Unknown('lookup'), st)]
        tag = tagv.v if isinstance(tagv, Const) else None
        pe: ElemE = st.get(P.sym)
        if idv is None:
            mode = summ.default_mode if len(summ.params) == 3 else 'wildcard'
            iddescr = 'no id'
        elif isinstance(idv, NoneV):
            mode = summ.none_mode
            iddescr = self.describe(idv, st)
        elif isinstance(idv, StrV) or (isinstance(idv, Const) and isinstance(idv.v, str)):
            mode = 'id'
            iddescr = self.describe(idv, st)
        else:
            mode = 'id'
            iddescr = self.describe(idv, st)
            self.note(f'{fi.short} called with id of type {type(idv).__name__}')
        miss_val = TupleV((NoneV(('miss', fi.short)), NoneV(('miss', fi.short)))) if summ.hit_shape == 'tuple' else NoneV(('miss', fi.short))

        def result(nsym, s):
            n = Ref('elem', nsym)
            if summ.hit_shape != 'tuple':
                return n
            if summ.index == 'fresh':
                ie = IdxE('fresh', P.sym, nsym)
            elif summ.index.startswith('off:'):
                ie = IdxE('fresh', P.sym, nsym, delta=int(summ.index[4:]), why=f'{fi.short} returns the index shifted by {summ.index[4:]}')
            else:
                ie = IdxE('foreign', why=f'index returned by {fi.short}: {summ.index}')
            return TupleV((n, Ref('idx', s.new(ie))))

        outs = []
        if mode == 'never':
            self.hook('lookup', st, node, fn=fi, parent=P, tag=tag, id=idv, result=None, mode=mode, iddescr=iddescr)
            return [(miss_val, st)]
        if mode == 'wildcard':
            explicit_none = isinstance(idv, NoneV)
            if tag is None:
                # symbolic tag (e.g. the tag of a carried metadata element): first child with that tag, if any
                tdescr = self.describe(tagv, st)
                s_miss = st.copy()
                self.stats['forks'] += 1
                nsym = st.new(ElemE(pe.prov, None, P.sym, True, ('lookup', S(P.sym), tdescr, 'tag only'), schema=pe.schema,
                                    lookup=(self.site(node, st), 'tag only', False)))
                st.mon.setdefault('sym:tagof', {})[nsym] = tdescr
                self.hook('lookup', st, node, fn=fi, parent=P, tag=tdescr, id=idv, result=Ref('elem', nsym), mode='tag', iddescr=iddescr, tagval=tagv)
                self.hook('lookup', s_miss, node, fn=fi, parent=P, tag=tdescr, id=idv, result=None, mode='tag', iddescr=iddescr, tagval=tagv)
                return [(result(nsym, st), st), (miss_val, s_miss)]
            for v, s in self.elem_find(P, tag, st, node):
                if isinstance(v, Ref):
                    if explicit_none:
                        e = s.get(v.sym)
                        s.put(v.sym, replace(e, lookup=(self.site(node, s), iddescr, True)))
                    self.hook('lookup', s, node, fn=fi, parent=P, tag=tag, id=idv, result=v, mode='wildcard', iddescr=iddescr)
                    outs.append((result(v.sym, s), s))
                else:
                    self.hook('lookup', s, node, fn=fi, parent=P, tag=tag, id=idv, result=None, mode='wildcard', iddescr=iddescr)
                    outs.append((miss_val, s))
            return outs
        # by id (or by blank id)
        idsym = idv.sym if isinstance(idv, StrV) else 0
        key = (P.sym, tag, idsym if idsym else iddescr)
        memo = st.lookups.get(key)
        if memo is not None and memo in st.heap and st.get(memo).attached is True and st.get(memo).parent == P.sym:
            self.hook('lookup', st, node, fn=fi, parent=P, tag=tag, id=idv, result=Ref('elem', memo), mode=mode, iddescr=iddescr, again=True)
            return [(result(memo, st), st)]
        s_miss = st.copy()
        self.stats['forks'] += 1
        nsym = st.new(ElemE(pe.prov, tag, P.sym if summ.direct else None, True, ('lookup', S(P.sym), tag, iddescr),
                            schema=pe.schema, lookup=(self.site(node, st), iddescr, False), idsym=idsym))
        st.lookups[key] = nsym
        self.hook('lookup', st, node, fn=fi, parent=P, tag=tag, id=idv, result=Ref('elem', nsym), mode=mode, iddescr=iddescr)
        outs.append((result(nsym, st), st))
        self.hook('lookup', s_miss, node, fn=fi, parent=P, tag=tag, id=idv, result=None, mode=mode, iddescr=iddescr)
        outs.append((miss_val, s_miss))
        return outs
