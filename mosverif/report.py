"""Outcomes, known-findings matching and the evidence writer (DESIGN §2.4, §8)."""
from __future__ import annotations

import json
import os
import sys
import time
from dataclasses import asdict, dataclass, field
from typing import Dict, List, Optional

VERIF = os.path.dirname(os.path.dirname(os.path.abspath(__file__)))
KNOWN_FILE = os.path.join(VERIF, 'known_findings.json')


@dataclass
class Obligation:
    rule: str
    where: str          # Class.method / function
    construct: str
    verdict: str        # DISCHARGED | VIOLATED | KNOWN
    detail: str = ''
    file: str = ''
    line: int = 0

    @property
    def key(self):
        return f'{self.rule}|{self.where}|{self.construct}'


@dataclass
class CheckResult:
    prop: str
    tier: str
    rules: Dict[str, str] = field(default_factory=dict)           # rule id -> text
    obligations: List[Obligation] = field(default_factory=list)
    floors: Dict[str, int] = field(default_factory=dict)          # rule -> minimum number of instances
    errors: List[str] = field(default_factory=list)               # analysis errors (exit 2)
    explanation: str = ''
    assumptions: List[str] = field(default_factory=list)
    trusted_base: List[str] = field(default_factory=list)
    extra: Dict[str, object] = field(default_factory=dict)
    witnesses: Dict[str, List[str]] = field(default_factory=dict)

    def add(self, rule, where, construct, ok: bool, detail='', file='', line=0, witness=None):
        ob = Obligation(rule, where, construct, 'DISCHARGED' if ok else 'VIOLATED', detail, file, line)
        for o in self.obligations:
            if o.key == ob.key:
                if not ok and o.verdict == 'DISCHARGED':
                    o.verdict, o.detail, o.file, o.line = 'VIOLATED', detail, file, line
                    if witness:
                        self.witnesses[o.key] = witness
                return o
        self.obligations.append(ob)
        if witness and not ok:
            self.witnesses[ob.key] = witness
        return ob

    def error(self, msg):
        if msg not in self.errors:
            self.errors.append(msg)


def load_known() -> dict:
    if not os.path.exists(KNOWN_FILE):
        return {'known': [], 'fixed': []}
    with open(KNOWN_FILE) as f:
        return json.load(f)


def finish(res: CheckResult, t0: float, seed: int, repo: str, digests: Dict[str, str], cmd: str) -> int:
    """Print the verdict lines, write evidence, return the exit status."""
    known = load_known()
    known_keys = {(k['property'], k['key']): k for k in known.get('known', [])}
    ev_dir = os.path.join(VERIF, 'evidence')
    os.makedirs(ev_dir, exist_ok=True)
    fdir = os.path.join(ev_dir, f'{res.prop}.findings')
    # floors: a rule matching fewer sites than confirmed by hand is a broken analysis, not a pass
    counts: Dict[str, int] = {}
    for o in res.obligations:
        counts[o.rule] = counts.get(o.rule, 0) + 1
    for rule, floor in res.floors.items():
        if counts.get(rule, 0) < floor:
            res.error(f'rule {rule}: instances={counts.get(rule, 0)} below floor={floor} (anchor vanished or idiom not recognised)')
    violations = []
    known_hits = []
    for o in res.obligations:
        if o.verdict == 'VIOLATED':
            k = known_keys.get((res.prop, o.key))
            if k is not None:
                o.verdict = 'KNOWN'
                known_hits.append((o, k))
            else:
                violations.append(o)
    status = 0
    print(f'== {res.prop} [{res.tier}] repo={repo}')
    for rule in sorted(set(list(res.rules) + list(counts))):
        n = counts.get(rule, 0)
        bad = sum(1 for o in res.obligations if o.rule == rule and o.verdict != 'DISCHARGED')
        fl = res.floors.get(rule)
        print(f'   rule {rule}: instances={n}' + (f' floor={fl}' if fl is not None else '') + f' violated={bad}')
    for e in res.errors:
        print(f'ANALYSIS-ERROR property={res.prop} {e}')
    if res.errors and not violations:
        status = 2          # nothing definite was found and part of the analysis is broken: no verdict
    else:
        # definite violations are reported even if another part of the analysis could not be completed
        for o, k in known_hits:
            print(f'KNOWN-FINDING: property={res.prop} {o.key} -- {k.get("what", o.detail)}')
        if violations:
            if os.path.isdir(fdir):
                for fn in os.listdir(fdir):
                    os.unlink(os.path.join(fdir, fn))
            os.makedirs(fdir, exist_ok=True)
            for i, o in enumerate(violations):
                path = os.path.join(fdir, f'{i}.json')
                with open(path, 'w') as f:
                    json.dump({'property': res.prop, 'key': o.key, 'rule': o.rule, 'rule_text': res.rules.get(o.rule, ''),
                               'where': o.where, 'construct': o.construct, 'file': o.file, 'line': o.line,
                               'detail': o.detail, 'path': res.witnesses.get(o.key, [])}, f, indent=1)
                print(f'VIOLATION property={res.prop} replay={path}')
                print(f'   {o.file}:{o.line} {o.rule} in {o.where}: {o.construct}')
                print(f'   {o.detail}')
            status = 1
    discharged = sum(1 for o in res.obligations if o.verdict == 'DISCHARGED')
    nontrivial = len({(o.where, o.construct) for o in res.obligations})
    samples = [asdict(o) for o in res.obligations[:60]]
    evidence = {
        'property_id': res.prop,
        'tier': res.tier,
        'seed': seed,
        'level': 'other',
        'coverage': {
            'explanation': res.explanation,
            'obligations': len(res.obligations),
            'discharged': discharged,
            'evaluations': max(len(res.obligations), 1),
            'distinct_nontrivial': nontrivial,
            'rule': 'one obligation per (rule, function, construct) instance found by the analyser in the current /repo sources; '
                    'non-trivial = distinct (function, construct) pairs',
            'samples': samples,
            'rules': res.rules,
            'instances_per_rule': counts,
            'floors': res.floors,
            'checker_cmd': cmd,
            'trusted_base': res.trusted_base,
            'modules': digests,
            'analysis_errors': res.errors,
            'known_findings_matched': [o.key for o, _ in known_hits],
            **res.extra,
        },
        'assumptions': res.assumptions,
        'wall_s': round(time.time() - t0, 3),
        'violations': len(violations),
    }
    # the evidence file describes the run against /repo; analysing another tree (--repo, VERIF_REPO) leaves it alone
    if not os.environ.get('VERIF_NOEVIDENCE') and os.path.realpath(repo) == os.path.realpath('/repo'):
        with open(os.path.join(ev_dir, f'{res.prop}.json'), 'w') as f:
            json.dump(evidence, f, indent=1, default=str)
    print(f'   obligations={len(res.obligations)} discharged={discharged} known={len(known_hits)} violations={len(violations)} '
          f'errors={len(res.errors)} wall={time.time() - t0:.2f}s -> exit {status}')
    return status
