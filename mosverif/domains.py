"""Abstract values, heap entries and the abstract state (finite domains; see DESIGN §2.3)."""
from __future__ import annotations

from dataclasses import dataclass, field, replace
from typing import Any, Dict, List, Optional, Tuple


# ----------------------------------------------------------------- values
class Val:
    __slots__ = ()


@dataclass(frozen=True)
class Unknown(Val):
    why: str = ''


@dataclass(frozen=True)
class NoneV(Val):
    origin: Any = None      # ('blank', elemsym) | ('absent', parentsym, tag) | ('noret', qualname) | None


@dataclass(frozen=True)
class Const(Val):
    v: Any


@dataclass(frozen=True)
class StrV(Val):
    origin: Any = None      # ('text', elemsym) | ('attr', elemsym, key) | ('fmt',) | ...
    sym: int = 0            # identity for equality facts (0 = anonymous)


@dataclass(frozen=True)
class NumV(Val):
    origin: Any = None


@dataclass(frozen=True)
class TallyV(NumV):
    """An integer tally kept next to a child position: its value is (number of nodes inserted at the position of index
    *base*'s anchor since that index was taken) - lag, i.e. <base> + <tally> is `lag` places before the anchor."""
    base: int = 0
    lag: int = 0


@dataclass(frozen=True)
class BoolV(Val):
    """An unknown boolean that could not be forked at its creation point."""
    why: str = ''


@dataclass(frozen=True)
class Ref(Val):
    kind: str               # elem | idx | list | obj | dict
    sym: int


@dataclass(frozen=True)
class TupleV(Val):
    items: Tuple[Val, ...]
    names: Tuple[str, ...] = ()          # field names when the tuple is an instance of a typing.NamedTuple class


@dataclass(frozen=True)
class ClsV(Val):
    qual: str               # program class qualname, or 'ext:<name>'


@dataclass(frozen=True)
class FuncV(Val):
    qual: str


@dataclass(frozen=True)
class LamV(Val):
    """A lambda expression together with the values of the enclosing frame at its creation (snapshot closure)."""
    key: int                                    # id of the ast.Lambda node (resolved through Interp.lambdas)
    captured: Tuple[Tuple[str, Any], ...] = ()
    defaults: Tuple[Any, ...] = ()              # parameter defaults, evaluated when the function object is created
    depth: int = 0                              # stack depth of the defining frame (late binding while that frame is alive)


@dataclass(frozen=True)
class PartV(Val):
    """functools.partial(f, *args, **kwargs) and the operator getters (kind 'attrgetter' | 'itemgetter' | 'methodcaller')"""
    kind: str
    func: Any = None
    args: Tuple[Any, ...] = ()
    kwargs: Tuple[Tuple[str, Any], ...] = ()


@dataclass(frozen=True)
class GenV(Val):
    """A generator expression bound to a local name and not consumed yet (it is run when iterated / passed to next())."""
    key: int                                    # id of the ast.GeneratorExp node (resolved through Interp.genexps)


@dataclass(frozen=True)
class BoundV(Val):
    recv: Val
    qual: str               # program function qualname


@dataclass(frozen=True)
class MethV(Val):
    """Bound builtin/model method: receiver + method name."""
    recv: Val
    name: str


@dataclass(frozen=True)
class ExtV(Val):
    """External (library) object / function identified by dotted name."""
    name: str


@dataclass(frozen=True)
class ModV(Val):
    name: str


@dataclass(frozen=True)
class ExcV(Val):
    cls: str                # simple class name
    msg: str = ''
    site: Any = None        # (file, line, func short, normalised construct)
    implicit: bool = False  # raised by a modelled partial operation rather than a raise statement
    cause: Any = None


@dataclass(frozen=True)
class IterV(Val):
    """Result of enumerate()/zip()/reversed() etc. kept lazy until iterated."""
    kind: str               # enumerate | reversed | generator
    src: Val
    start: Val = Const(0)


# ------------------------------------------------------------ heap entries
@dataclass(frozen=True)
class ElemE:
    prov: str               # RO | MSG | COPY | NEW | UNK
    tag: Optional[str]
    parent: Optional[int]
    attached: Any           # True | False | 'maybe'
    origin: Any             # descriptor tuple
    schema: bool = True     # schema-shaped tree (required tags present)
    lookup: Any = None      # for looked-up nodes: (site, idval descr, wildcard)
    idsym: int = 0          # symbol of the id string this node's id equals (for lookups)
    text: Any = None        # written text, if any
    stag: Optional[str] = None   # tag used for schema lookups when it differs from .tag (retagged copies)
    copy_of: Optional[int] = None
    born: int = 0


@dataclass(frozen=True)
class IdxE:
    kind: str               # fresh | slot | end | foreign | stale | gapped | const
    parent: Optional[int] = None
    anchor: Optional[int] = None
    delta: int = 0          # value - true position
    slack: int = 0          # for 'end': lower bound of value - len(parent)
    why: str = ''
    descr: str = ''
    const: Optional[int] = None
    succ: Any = None        # (kind, anchor, slack): the position right after the node just inserted here
    born: int = 0
    pos: Any = None         # (depth, k>0): this value is the 0-based enumerate() counter of the loop at that depth
    advloop: Any = None     # depth of the loop whose enumerate(start=<index>) / <index> + counter produced this position
    ins: int = 0            # nodes inserted exactly at this index's anchor position since it was taken (capped at 3)


@dataclass(frozen=True)
class ListE:
    kind: str               # findall | children | live | map | lit | accum | reorder | slice | set | chain | str
    lo: int = 0
    hi: Optional[int] = None
    parent: Optional[int] = None      # findall/children
    tag: Optional[str] = None
    items: Tuple[Val, ...] = ()       # lit: exact items ; map/accum: alternative templates
    owned: Tuple[Tuple[int, ...], ...] = ()   # per template: symbols owned by the template
    src: Optional[int] = None         # source list sym (map/slice/reorder)
    ordered: bool = True              # document/message order preserved so far
    stages: Tuple[str, ...] = ()      # pipeline description
    spec: Any = None                  # slice spec
    tuple_: bool = False
    dirty: bool = False               # snapshot of an element's children taken before the element was modified
    distinct: bool = False            # elements are pairwise distinct nodes (established by 'x in L' tests before append)
    born: int = 0


@dataclass(frozen=True)
class ObjE:
    cls: str                          # program class qualname
    fields: Tuple[Tuple[str, Val], ...] = ()
    born: int = 0
    explicit: Tuple[str, ...] = ()    # constructor keywords that were passed explicitly
    site: Any = None

    def get(self, name):
        for k, v in self.fields:
            if k == name:
                return v
        return None

    def set(self, name, val):
        fs = [(k, v) for k, v in self.fields if k != name]
        fs.append((name, val))
        return replace(self, fields=tuple(sorted(fs, key=lambda kv: kv[0])))


@dataclass(frozen=True)
class DictE:
    items: Tuple[Tuple[Val, Val], ...] = ()
    exact: bool = True
    born: int = 0
    default: Any = None       # value of a missing key (collections.Counter -> Const(0)); None = KeyError


# ------------------------------------------------------------------ frames
class Frame:
    __slots__ = ('env', 'func', 'cur_exc', 'site', 'loops', 'depth', 'callnode', 'serial0')

    def __init__(self, func, site=None, depth=0):
        self.env: Dict[str, Val] = {}
        self.func = func
        self.cur_exc = None
        self.site = site
        self.loops = 0
        self.depth = depth
        self.callnode = None
        self.serial0 = 0

    def copy(self):
        f = Frame(self.func, self.site, self.depth)
        f.env = dict(self.env)
        f.cur_exc = self.cur_exc
        f.loops = self.loops
        f.callnode = self.callnode
        f.serial0 = self.serial0
        return f


@dataclass(frozen=True)
class Event:
    kind: str
    data: Tuple
    site: Any = None


_SORTED: Dict[Tuple, Tuple] = {}


def S(sym):
    """Wrap a heap symbol for use inside origin descriptors."""
    return ('$', sym)


@dataclass(frozen=True)
class LenV(Val):
    """len() of an abstract list (comparisons with constants refine the list's bounds)."""
    sym: int


class State:
    """One abstract state: call stack, heap, relational facts, monitor summaries,
    and the trace of effects that led here (witness only - not part of the key)."""

    def __init__(self):
        self.frames: List[Frame] = []
        self.heap: Dict[int, Any] = {}
        self.facts: set = set()
        self.first: Dict[Tuple[int, str], Any] = {}     # (parent, tag) -> sym | 'ABSENT'
        self.mon: Dict[str, Any] = {}
        self.trace: Tuple = ()
        self.serial = 0
        self.lookups: Dict[Tuple, int] = {}              # (parent, tag, idsym) -> node sym (memo)
        self.effects = 0                                 # number of side effects so far (not part of the key)

    def copy(self) -> 'State':
        s = State.__new__(State)
        s.frames = [f.copy() for f in self.frames]
        s.heap = dict(self.heap)
        s.facts = set(self.facts)
        s.first = dict(self.first)
        s.mon = {k: (v.copy() if hasattr(v, 'copy') else v) for k, v in self.mon.items()}
        s.trace = self.trace
        s.serial = self.serial
        s.lookups = dict(self.lookups)
        s.effects = self.effects
        return s

    # -- heap
    def new(self, entry) -> int:
        self.serial += 1
        self.heap[self.serial] = replace(entry, born=self.serial)
        return self.serial

    def get(self, sym):
        return self.heap[sym]

    def put(self, sym, entry):
        self.heap[sym] = entry

    @property
    def frame(self) -> Frame:
        return self.frames[-1]

    def effect(self):
        """A side effect happened: results of pure property evaluations are no longer reusable."""
        self.effects += 1
        if self.mon.get('propmemo'):
            self.mon['propmemo'] = {}

    def emit(self, kind, *data, site=None):
        self.trace = (self.trace, Event(kind, data, site))

    def events(self) -> List[Event]:
        out = []
        t = self.trace
        while t:
            t, e = t
            out.append(e)
        out.reverse()
        return out

    # -- canonical key (for de-duplication and loop fix-points)
    def key(self, extra=None, ignore=(), accum_before=0):
        mapping: Dict[int, int] = {}
        out: List = []

        heap = self.heap

        def vkey(v):
            t = type(v)
            if t is Ref:
                s = v.sym
                return ('R', v.kind, mapping[s] if s in mapping else skey(s))
            if t is Const or t is ClsV or t is FuncV or t is ExtV or t is ModV:
                return v
            if t is NoneV:
                return ('N', okey(v.origin)) if v.origin is not None else 'N'
            if t is StrV:
                return ('S', okey(v.origin), 1 if v.sym else 0)
            if t is TupleV:
                return ('T',) + tuple([vkey(x) for x in v.items])
            if t is NumV:
                return 'Num'
            if t is BoundV:
                return ('B', vkey(v.recv), v.qual)
            if t is MethV:
                return ('M', vkey(v.recv), v.name)
            if t is IterV:
                return ('I', v.kind, vkey(v.src), vkey(v.start))
            if t is ExcV:
                return ('E', v.cls, v.implicit)
            if t is Unknown:
                return 'U'
            if t is LenV:
                return ('L', mapping[v.sym] if v.sym in mapping else skey(v.sym))
            if t is TallyV:
                return ('Tal', mapping[v.base] if v.base in mapping else skey(v.base), v.lag)
            if t is LamV:
                return ('Lam', v.key, tuple([(n, vkey(x)) for n, x in v.captured]), tuple([vkey(x) for x in v.defaults]), v.depth)
            if t is PartV:
                return ('P', v.kind, vkey(v.func) if v.func is not None else None, tuple([vkey(x) for x in v.args]),
                        tuple([(k, vkey(x)) for k, x in v.kwargs]))
            return v

        def okey(o):
            if type(o) is tuple:
                if len(o) == 2 and o[0] == '$':
                    s = o[1]
                    return ('$', mapping[s] if s in mapping else skey(s))
                return tuple([okey(x) if type(x) is tuple else x for x in o])
            return o

        def skey(sym):
            if sym in mapping:
                return mapping[sym]
            n = len(mapping) + 1
            mapping[sym] = n
            e = heap.get(sym)
            if e is None:
                out.append((n, None))
                return n
            t = type(e)
            if t is ElemE:
                p = e.parent
                k = ('e', e.prov, e.tag, (mapping[p] if p in mapping else skey(p)) if p else None, e.attached,
                     okey(e.origin), e.schema, e.lookup[2] if e.lookup else None, e.stag)
            elif t is IdxE:
                p, a = e.parent, e.anchor
                k = ('i', e.kind, (mapping[p] if p in mapping else skey(p)) if p else None,
                     (mapping[a] if a in mapping else skey(a)) if a else None, e.delta, e.slack, e.const,
                     (e.succ[0], (mapping[e.succ[1]] if e.succ[1] in mapping else skey(e.succ[1])) if e.succ[1] else None, e.succ[2]) if e.succ else None, e.pos, e.ins)
            elif t is ListE and accum_before and e.kind == 'accum' and sym <= accum_before:
                k = ('l', 'accum*', e.ordered, e.distinct, e.dirty)      # contents joined separately (union of templates)
            elif t is ListE:
                k = ('l', e.kind, e.lo, e.hi, skey(e.parent) if e.parent else None, e.tag,
                     tuple([vkey(x) for x in e.items]), skey(e.src) if e.src else None, e.ordered,
                     (tuple(vkey(x) for x in e.spec) if e.kind == 'count' and e.spec else e.spec), e.distinct, e.dirty)
            elif t is ObjE:
                k = ('o', e.cls, tuple([(a, vkey(b)) for a, b in e.fields]))
            elif t is DictE:
                k = ('d', tuple([(vkey(a), vkey(b)) for a, b in e.items]), e.exact)
            else:
                k = ('?', repr(e))
            out.append((n, k))
            return n

        fk = []
        for f in self.frames:
            env = f.env
            names = _SORTED.get(tuple(env))
            if names is None:
                names = _SORTED[tuple(env)] = tuple(sorted(env))
            fk.append((f.func.qualname if f.func else None,
                       tuple([(name, vkey(env[name])) for name in names if name not in ignore]),
                       vkey(f.cur_exc) if f.cur_exc is not None else None))
        mk = []

        def cs(x):
            return ('s', mapping[x]) if x in mapping else 'dead'
        for name in sorted(self.mon):
            v = self.mon[name]
            if name in ('textsyms',):
                continue          # string identities: compared through facts only
            if name == 'propmemo':
                mk.append((name, tuple(sorted((((cs(a[0]), a[1]), vkey(b)) for a, b in v.items() if a[0] in mapping), key=repr))))
            elif name in ('attrib_of', 'descend_of'):
                mk.append((name, tuple(sorted((cs(a), cs(b)) for a, b in v.items() if a in mapping))))
            elif name == 'nth':
                mk.append((name, tuple(sorted(((cs(a[1]),) + a[2:], cs(b)) for a, b in v.items() if a[1] in mapping and b in mapping))))
            elif name == 'lapp':
                mk.append((name, tuple(sorted(((dd, tuple(cs(x) for x in E), tuple((cs(x), n) for x, n in C), None if OK is None else tuple(cs(x) for x in OK))
                                               for dd, (E, C, OK) in v.items()), key=repr))))
            elif name == 'lastapp':
                mk.append((name, tuple(sorted(((cs(a), vkey(b)) for a, b in v.items() if a in mapping), key=repr))))
            elif name.startswith('ref:'):
                mk.append((name, cs(v) if isinstance(v, int) else repr(v)))       # a single heap symbol
            elif name == 'parsed_root':
                mk.append((name, cs(v.sym) if isinstance(v, Ref) else repr(v)))
            elif name == 'advbase':
                mk.append((name, tuple(sorted((a, (b.kind, cs(b.parent) if b.parent else None, cs(b.anchor) if b.anchor else None, b.delta, b.slack))
                                              for a, b in v.items()))))
            elif name == 'advsym':
                mk.append((name, tuple(sorted((a, cs(b)) for a, b in v.items()))))
            elif name == 'itlog':
                mk.append((name, tuple(sorted((a, tuple((r[0],) + tuple(cs(x) if x is not None else None for x in r[1:]) for r in b))
                                              for a, b in v.items()))))
            elif name == 'livedepth':
                mk.append((name, tuple(sorted((a, cs(b)) for a, b in v.items()))))
            elif name == 'sym:fromlist':
                mk.append((name, tuple(sorted(((cs(a), cs(b)) for a, b in v.items() if a in mapping), key=repr))))
            elif name.startswith('sym:'):
                # dict keyed by heap symbol, plain values
                mk.append((name, tuple(sorted(((cs(a), b) for a, b in v.items() if a in mapping), key=repr))))
            elif isinstance(v, dict):
                mk.append((name, tuple(sorted(v.items(), key=repr))))
            elif isinstance(v, (set, frozenset)):
                mk.append((name, tuple(sorted(v, key=repr))))
            else:
                mk.append((name, v))
        facts = []
        for f in self.facts:
            syms = [x for x in f[1:] if isinstance(x, int)]
            if all(x in mapping for x in syms):
                facts.append((f[0],) + tuple(mapping.get(x, x) if isinstance(x, int) else x for x in f[1:]))
        firsts = []
        for (p, t), s in self.first.items():
            if p in mapping:
                firsts.append((mapping[p], t, 'ABSENT' if s == 'ABSENT' else (mapping.get(s, 'unref'))))
        return (tuple(fk), tuple(out), tuple(mk), tuple(sorted(facts, key=repr)),
                tuple(sorted(firsts, key=repr)), extra)
