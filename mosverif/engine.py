"""Engine = interpreter + search summaries + event recording.  Rule engines subclass it."""
from __future__ import annotations

from .interp import Interp, Raise
from .lookup import LookupMixin


class Engine(LookupMixin, Interp):
    def __init__(self, prog, *, entry='', summaries=None):
        Interp.__init__(self, prog, entry=entry)
        if summaries is None:
            self.build_summaries()
        else:
            self.summaries = summaries

    def call_function(self, fi, args, kwargs, st, node, self_val=None):
        summ = self.summaries.get(fi.qualname)
        if summ is not None and self_val is None:
            self.functions_entered.add(fi.qualname)
            return self.do_lookup(summ, args, kwargs, st, node)
        return super().call_function(fi, args, kwargs, st, node, self_val=self_val)

    def hook(self, kind, st, node, **data):
        if kind in ('lookup', 'remove', 'insert', 'append', 'setitem', 'warn', 'newchild', 'copy', 'elem-store',
                    'elem-bool', 'serialize', 'extend', 'clear', 'descend', 'print', 'reorder'):
            st.emit(kind, *self._evdata(kind, st, data), site=self.site(node, st) if node is not None else None)
        m = getattr(self, 'on_' + kind.replace('-', '_'), None)
        if m is not None:
            m(st, node, **data)

    def _evdata(self, kind, st, data):
        out = []
        for k, v in data.items():
            if k in ('entry', 'fn', 'kwargs', 'args'):
                continue
            if hasattr(v, '__dataclass_fields__') or v is None:
                out.append(f'{k.rstrip("_")}={self.describe(v, st) if v is not None else None}')
            else:
                out.append(f'{k}={v}')
        return out
