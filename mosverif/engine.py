"""Engine = interpreter + search summaries + event recording.  Rule engines subclass it."""
from __future__ import annotations

from dataclasses import replace

from .domains import NoneV
from .front import norm
from .interp import Finding, Interp, Raise
from .lookup import LookupMixin


class Engine(LookupMixin, Interp):
    def __init__(self, prog, *, entry='', summaries=None):
        Interp.__init__(self, prog, entry=entry)
        if summaries is None:
            self.build_summaries()
        else:
            self.summaries = summaries

    def call_function(self, fi, args, kwargs, st, node, self_val=None):
        summ = self.summaries.get(fi.qualname)
        if summ is not None and self_val is None:
            self.functions_entered.add(fi.qualname)
            return self.do_lookup(summ, args, kwargs, st, node)
        return super().call_function(fi, args, kwargs, st, node, self_val=self_val)

    def on_setfield(self, obj, name, old, new, st, node):
        self.check_stale_cache(obj, name, new, st, node)

    def on_cached_property(self, obj, fi, value, st, node):
        ent = st.get(obj.sym)
        fam = getattr(self, '_mosfile_family', None)
        if fam is None:
            fam = self._mosfile_family = {c.qualname for c in self.prog.subclasses(self.prog.cls('MosFile'))}
        if ent.cls in fam:
            fd = Finding('STALE-CACHE', fi.short, '@cached_property',
                         f'{fi.short} is a cached_property of a long-lived MOS object: the value computed from the document at first access '
                         'is served forever, also after merges (or the caller) changed what it was computed from',
                         fi.file, fi.node.lineno, self.entry, self.witness(st))
            self.findings.setdefault(fd.key, fd)

    def check_stale_cache(self, obj, name, new, st, node):
        """STALE-CACHE: a property getter of a long-lived MOS object (MosFile family) stores a value into the object.
        Merges mutate / replace the XML afterwards, so the stored value goes stale."""
        ent = st.get(obj.sym)
        fam = getattr(self, '_mosfile_family', None)
        if fam is None:
            fam = self._mosfile_family = {c.qualname for c in self.prog.subclasses(self.prog.cls('MosFile'))}
        if ent.cls not in fam:
            return
        for fr in reversed(st.frames):
            f = fr.func
            if f is not None and f.kind == 'property' and f.node.args.args and fr.env.get(f.node.args.args[0].arg) == obj:
                if isinstance(new, NoneV) and new.origin is None:
                    continue
                fd = Finding('STALE-CACHE', f.short, f'self.{name} = ... inside the getter', 
                             f'the getter {f.short} memoises a value derived from the document in self.{name}; later merges change the document '
                             f'and the accessor keeps answering from the stale value', f.file, getattr(node, 'lineno', f.node.lineno), self.entry, self.witness(st))
                self.findings.setdefault(fd.key, fd)
                return

    def hook(self, kind, st, node, **data):
        if kind in ('lookup', 'remove', 'insert', 'append', 'setitem', 'warn', 'newchild', 'copy', 'elem-store',
                    'elem-bool', 'serialize', 'extend', 'clear', 'descend', 'print', 'reorder'):
            st.emit(kind, *self._evdata(kind, st, data), site=self.site(node, st) if node is not None else None)
        if kind in ('remove', 'insert', 'append', 'setitem', 'elem-store', 'extend', 'clear', 'list-append', 'dict-store', 'newchild'):
            st.effect()
        m = getattr(self, 'on_' + kind.replace('-', '_'), None)
        if m is not None:
            m(st, node, **data)

    def _evdata(self, kind, st, data):
        out = []
        for k, v in data.items():
            if k in ('entry', 'fn', 'kwargs', 'args'):
                continue
            if hasattr(v, '__dataclass_fields__') or v is None:
                out.append(f'{k.rstrip("_")}={self.describe(v, st) if v is not None else None}')
            else:
                out.append(f'{k}={v}')
        return out

    # ----------------------------------------------------------- attribution
    def attrib(self, st: State, node):
        """(function short name, construct node, file, line): the innermost frame outside utils/xml.py and
        the call it makes, so that the tree helpers are reported at their call site."""
        frames = st.frames
        for i in range(len(frames) - 1, -1, -1):
            f = frames[i]
            if f.func is not None and f.func.name != '<entry>' and not f.func.module.name.endswith('utils.xml'):
                n = node if i == len(frames) - 1 else frames[i + 1].callnode
                return f.func.short, n, f.func.file, getattr(n, 'lineno', 0)
        f = frames[-1]
        return (f.func.short if f.func else '?'), node, (f.func.file if f.func else '?'), getattr(node, 'lineno', 0)

    def find_(self, rule, st, node, construct, detail=''):
        """Key = rule | method | normalised source construct; the provenance-level description goes to the detail."""
        func, n, file, line = self.attrib(st, node)
        text = norm(n) if n is not None else construct
        fd = Finding(rule, func, text, f'{construct}: {detail}' if construct != text else detail, file, line, self.entry, self.witness(st))
        self.findings.setdefault(fd.key, fd)

    def st_Raise(self, stmt, st):
        outs = super().st_Raise(stmt, st)
        res = []
        for ctl, s in outs:
            if isinstance(ctl, tuple) and ctl[0] == 'raise' and not ctl[1].implicit and ctl[1].site and ctl[1].site[1] == stmt.lineno:
                func, n, file, line = self.attrib(s, stmt)
                ctl = ('raise', replace(ctl[1], site=(file, line, func, norm(stmt))))
            res.append((ctl, s))
        return res

    def exc(self, cls, st, node, msg='', implicit=True):
        r = super().exc(cls, st, node, msg, implicit)
        func, n, file, line = self.attrib(st, node)
        return Raise(replace(r.exc, site=(file, line, func, norm(n) if n is not None else '')))

