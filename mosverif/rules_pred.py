"""predtable: the acceptance predicate of MosCollection._validate as a finite truth table (DESIGN §4 C11).

The statements of _validate are evaluated abstractly over the inputs
  empty (no readers) x same_id x n_create in {0,1,2,3} x n_delete in {0,1,2,3} x allow_incomplete.
The code touches these quantities only through comparisons with constants, truthiness and all(...),
so the abstraction is exact; any other statement/expression shape is reported as unrecognised.
"""
from __future__ import annotations

import ast
import itertools
from typing import Dict, List, Optional

from .front import AnalysisError, FuncInfo, Program, norm
from .report import CheckResult


class Unrecognised(Exception):
    pass


class Reject(Exception):
    def __init__(self, exc):
        self.exc = exc


def spec_accept(empty, same_id, n_create, n_delete, allow):
    return (not empty) and same_id and n_create == 1 and n_delete <= 1 and (allow or n_delete == 1)


class _Subst(ast.NodeTransformer):
    def __init__(self, mapping):
        self.mapping = mapping

    def visit_Name(self, n):
        if isinstance(n.ctx, ast.Load) and n.id in self.mapping:
            return self.mapping[n.id]
        return n


def inline_simple_call(prog: Program, cls_name: str, e):
    """self._helper(a, b) / cls._helper(a, b) where the helper's body is a single `return <expr>`:
    the expression with the parameters replaced by the arguments; anything else is returned unchanged."""
    import copy as _copy
    if not (isinstance(e, ast.Call) and isinstance(e.func, ast.Attribute) and isinstance(e.func.value, ast.Name)
            and e.func.value.id in ('self', 'cls', cls_name)):
        return e
    target = prog.cls(cls_name).find(e.func.attr)
    if target is None or target.kind not in ('method', 'classmethod', 'staticmethod'):
        return e
    body = [s for s in target.node.body if not (isinstance(s, ast.Expr) and isinstance(s.value, ast.Constant))]
    if len(body) != 1 or not isinstance(body[0], ast.Return) or body[0].value is None:
        return e
    params = [a.arg for a in target.node.args.args]
    if target.kind != 'staticmethod':
        params = params[1:]
    if len(e.args) > len(params) or any(k.arg is None for k in e.keywords):
        return e
    mapping = dict(zip(params, e.args))
    for k in e.keywords:
        mapping[k.arg] = k.value
    if set(params) - set(mapping):
        return e
    return _Subst(mapping).visit(_copy.deepcopy(body[0].value))


class Evaluator:
    prog: Optional[Program] = None

    def strict_subclasses(self, name):
        if self.prog is None:
            return []
        base = self.prog.cls(name)
        return sorted(c.name for c in self.prog.subclasses(base) if c.name != name)

    def x(self, e):
        return inline_simple_call(self.prog, 'MosCollection', e) if self.prog is not None else e

    def __init__(self, fi: FuncInfo, row):
        self.fi = fi
        self.empty, self.same_id, self.n_create, self.n_delete, self.allow = row[:5]
        self.n_sub = row[5] if len(row) > 5 else 0          # readers whose class is a strict subclass of RunningOrder (roReplace)
        self.lists: Dict[str, int] = {}      # local name -> length
        self.vals: Dict[str, object] = {}
        self.aliases = {'self.mos_readers', 'self._mos_readers'}    # expressions denoting the reader list
        self.allow_name = None
        for a, d in list(zip(fi.node.args.args[::-1], fi.node.args.defaults[::-1])) + list(zip(fi.node.args.kwonlyargs, fi.node.args.kw_defaults)):
            if a.arg == 'allow_incomplete':
                self.allow_name = a.arg
        self.total = 0 if self.empty else max(1, self.n_create + self.n_delete + self.n_sub)

    # -- expressions
    def length_of(self, e) -> Optional[int]:
        t = norm(e)
        if t in self.aliases:
            return self.total
        if isinstance(e, ast.Name) and e.id in self.lists:
            return self.lists[e.id]
        return None

    def comp_length(self, e) -> Optional[int]:
        """[mr for mr in self.mos_readers if mr.mos_type ==/!= <Class>]"""
        e = self.x(e)
        if not isinstance(e, (ast.ListComp, ast.GeneratorExp)) or len(e.generators) != 1:
            return None
        g = e.generators[0]
        if norm(g.iter) not in self.aliases or len(g.ifs) != 1:
            return None
        c = g.ifs[0]
        negate = False
        while isinstance(c, ast.UnaryOp) and isinstance(c.op, ast.Not):
            c, negate = c.operand, not negate
        if isinstance(c, ast.Call) and norm(c.func) in ('issubclass', 'isinstance') and len(c.args) == 2:
            # issubclass(mr.mos_type, C) / isinstance(mr.mos_object, C): C and its subclasses
            subj = norm(c.args[0])
            if not ((norm(c.func) == 'issubclass' and subj.endswith('.mos_type')) or (norm(c.func) == 'isinstance' and subj.endswith('.mos_object'))):
                raise Unrecognised(norm(c))
            cls = norm(c.args[1])
            subs = self.strict_subclasses('RunningOrder')
            n = {'RunningOrder': self.n_create + self.n_sub, 'RunningOrderEnd': self.n_delete, 'MosFile': self.total}.get(cls)
            if n is None and len(subs) == 1 and cls == subs[0]:
                n = self.n_sub
            if n is None:
                raise Unrecognised(f'filter on {norm(c)}')
            return self.total - n if negate else n
        if negate or not (isinstance(c, ast.Compare) and len(c.ops) == 1 and norm(c.left).endswith('.mos_type')):
            return None
        cls = norm(c.comparators[0])
        n = {'RunningOrder': self.n_create, 'RunningOrderEnd': self.n_delete}.get(cls)
        if n is None:
            raise Unrecognised(f'filter on {cls}')
        if isinstance(c.ops[0], (ast.Eq, ast.Is)):
            return n
        if isinstance(c.ops[0], (ast.NotEq, ast.IsNot)):
            return self.total - n
        raise Unrecognised(norm(c))

    def num(self, e):
        if isinstance(e, ast.Constant) and isinstance(e.value, int):
            return e.value
        e = self.x(e)
        if isinstance(e, ast.Call) and norm(e.func) == 'len' and len(e.args) == 1:
            n = self.length_of(e.args[0])
            if n is None:
                n = self.comp_length(e.args[0])
            if n is None:
                raise Unrecognised(norm(e))
            return n
        if isinstance(e, ast.Name) and e.id in self.vals and isinstance(self.vals[e.id], int):
            return self.vals[e.id]
        raise Unrecognised(norm(e))

    def truth(self, e) -> bool:
        if isinstance(e, ast.BoolOp):
            vals = (self.truth(v) for v in e.values)
            return all(vals) if isinstance(e.op, ast.And) else any(vals)
        if isinstance(e, ast.UnaryOp) and isinstance(e.op, ast.Not):
            return not self.truth(e.operand)
        if isinstance(e, ast.Name):
            if e.id == self.allow_name:
                return self.allow
            if e.id in self.lists:
                return self.lists[e.id] > 0
            if e.id in self.vals:
                return bool(self.vals[e.id])
            raise Unrecognised(e.id)
        if isinstance(e, ast.Constant):
            return bool(e.value)
        if isinstance(e, ast.Compare) and len(e.ops) == 1:
            a, b = self.num(e.left), self.num(e.comparators[0])
            op = e.ops[0]
            return {ast.Eq: a == b, ast.NotEq: a != b, ast.Lt: a < b, ast.LtE: a <= b, ast.Gt: a > b, ast.GtE: a >= b}[type(op)]
        if isinstance(e, ast.Compare) and len(e.ops) == 2:
            a, b, c = self.num(e.left), self.num(e.comparators[0]), self.num(e.comparators[1])
            f = lambda op, x, y: {ast.Eq: x == y, ast.NotEq: x != y, ast.Lt: x < y, ast.LtE: x <= y, ast.Gt: x > y, ast.GtE: x >= y}[type(op)]  # noqa: E731
            return f(e.ops[0], a, b) and f(e.ops[1], b, c)
        if isinstance(e, ast.Call) and norm(e.func) == 'all' and len(e.args) == 1 and 'ro_id' in norm(e.args[0]):
            if self.empty:
                return True
            return self.same_id
        if isinstance(e, ast.Call) and norm(e.func) == 'any' and len(e.args) == 1 and 'ro_id' in norm(e.args[0]):
            return (not self.empty) and not self.same_id        # any(mr.ro_id != ro_id ...)
        n = self.length_of(e)
        if n is not None:
            return n > 0
        raise Unrecognised(norm(e))

    # -- statements
    def run(self, stmts):
        for s in stmts:
            self.stmt(s)

    def exc_name(self, e) -> str:
        if isinstance(e, ast.Call):
            e = e.func
        return e.attr if isinstance(e, ast.Attribute) else getattr(e, 'id', '?')

    def stmt(self, s):
        if isinstance(s, ast.Expr):
            if isinstance(s.value, ast.Constant) or (isinstance(s.value, ast.Call) and norm(s.value.func).startswith(('logger.', 'logging.', 'warnings.'))):
                return
            if isinstance(s.value, ast.Call) and norm(s.value.func) in ('self._mos_readers.remove', 'self.mos_readers.remove') and len(s.value.args) == 1:
                self.vals['readers_removed'] = norm(s.value.args[0])
                return
            raise Unrecognised(norm(s))
        if isinstance(s, ast.Pass):
            return
        if isinstance(s, ast.Assert):
            if not self.truth(s.test):
                raise Reject('AssertionError')
            return
        if isinstance(s, ast.Raise):
            raise Reject(self.exc_name(s.exc) if s.exc is not None else 'reraise')
        if isinstance(s, ast.If):
            self.run(s.body if self.truth(s.test) else s.orelse)
            return
        if isinstance(s, ast.Return):
            raise StopIteration
        if isinstance(s, ast.For) and norm(s.iter) in self.aliases and not s.orelse:
            # for mr in readers: if mr.ro_id != ro_id: raise ...   (the all(...) test written as a loop)
            #    or: for mr in readers: if mr.ro_id == ro_id: continue; raise ...
            body = list(s.body)
            test, guarded, negate = None, None, False
            if body and isinstance(body[0], ast.If) and not body[0].orelse:
                if len(body) == 1:
                    test, guarded = body[0].test, body[0].body
                elif len(body[0].body) == 1 and isinstance(body[0].body[0], ast.Continue):
                    test, guarded, negate = body[0].test, body[1:], True
            while isinstance(test, ast.UnaryOp) and isinstance(test.op, ast.Not):
                test, negate = test.operand, not negate
            if isinstance(test, ast.Compare) and len(test.ops) == 1 and 'ro_id' in norm(test.left) and 'ro_id' in norm(test.comparators[0]) \
                    and isinstance(test.ops[0], (ast.NotEq, ast.IsNot, ast.Eq, ast.Is)):
                differs = isinstance(test.ops[0], (ast.NotEq, ast.IsNot)) != negate
                mismatch = (not self.empty) and not self.same_id
                # the guarded statements run for some element iff ...
                if (mismatch if differs else (not self.empty)):
                    if not differs and not self.same_id and not all(isinstance(g, (ast.Raise,)) for g in guarded):
                        raise Unrecognised(norm(s)[:120])
                    if any(isinstance(g, (ast.Break, ast.Continue)) for g in guarded):
                        raise Unrecognised(norm(s)[:120])
                    self.run(guarded)
                return
            raise Unrecognised(norm(s)[:120])
        if isinstance(s, ast.Assign) and len(s.targets) == 1:
            t, v = s.targets[0], self.x(s.value)
            n = self.comp_length(v)
            tn = norm(t)
            if n is not None:
                if isinstance(t, ast.Name):
                    self.lists[t.id] = n
                elif tn == 'self._mos_readers':
                    self.vals['readers_after'] = norm(v)
                    self.vals['readers_src_ok'] = norm(v.generators[0].iter) in self.aliases
                else:
                    raise Unrecognised(norm(s))
                return
            # x = <list>[0]...  : partial operation
            sub = [x for x in ast.walk(v) if isinstance(x, ast.Subscript)]
            for x in sub:
                ln = self.length_of(x.value)
                if ln is None:
                    raise Unrecognised(norm(x))
                idx = x.slice.value if isinstance(x.slice, ast.Constant) else None
                if idx is None:
                    raise Unrecognised(norm(x))
                need = idx + 1 if idx >= 0 else -idx
                if ln < need:
                    raise Reject('IndexError')
            if tn == 'self._ro':
                self.vals['ro_from'] = norm(v)
                return
            if isinstance(t, ast.Name):
                if norm(v) in self.aliases:
                    self.aliases.add(t.id)
                    return
                ln = self.length_of(v)
                if ln is not None:
                    self.lists[t.id] = ln
                else:
                    try:
                        self.vals[t.id] = self.num(v)
                    except Unrecognised:
                        self.vals[t.id] = norm(v)
                return
            if tn == 'self._mos_readers':
                self.vals['readers_after'] = norm(v)
                return
            raise Unrecognised(norm(s))
        raise Unrecognised(norm(s))

    # (no further statement kinds are recognised)


# ----------------------------------------------------------------------------------------------------------------
# The same table by interpretation: MosCollection(readers, allow_incomplete=...) is run by the abstract interpreter on
# one *exact* representative reader list per row (concrete class objects and ro ids, symbolic message objects), in two
# orders.  Every operation on exact lists / class constants / small integers folds, so the outcome is definite.
def interpreted_rows(prog: Program, rows):
    from .domains import ClsV, Const, ExtV, ListE, ObjE, Ref, TupleV
    from .harness import base_state
    from .interp import Raise
    from .rules_coll import CollectionFlow

    class ValidateFlow(CollectionFlow):
        def opaque_ext(self, name, args, kwargs, st, node):
            if name == 'symbolic-restore':
                sym = st.new(ObjE(self.prog.cls('MosFile').qualname, (('%src', args[0] if args else Const('?')), ('%symbolic', Const(True)))))
                return [(Ref('obj', sym), st)]
            return super().opaque_ext(name, args, kwargs, st, node)

    reader_cls = prog.cls('MosReader')
    coll_cls = prog.cls('MosCollection')
    q = {n: prog.cls(n).qualname for n in ('RunningOrder', 'RunningOrderEnd', 'StorySend')}
    subs = [c for c in prog.subclasses(prog.cls('RunningOrder')) if c.name != 'RunningOrder']
    out = {}
    for row in rows:
        empty, same_id, nc, nd, allow, nsub = row
        kinds = [] if empty else (['other'] + ['create'] * nc + ['sub'] * nsub + ['delete'] * nd)
        if not same_id and len(kinds) < 2:
            continue
        results = []
        orders = ['forward', 'reversed']
        if nc > 1 or nd > 1:
            orders.append('interleaved')       # equal message types not adjacent: create, other, create, delete, other, delete ...
        for order in orders:
            if order == 'interleaved':
                pools = [['create'] * nc, ['delete'] * nd, ['sub'] * nsub]
                rr = []
                while any(pools):
                    for pl in pools:
                        if pl:
                            rr.append(pl.pop())
                seq = []
                for k in rr:                   # round-robin over the types, an unrelated message between two equal neighbours
                    if seq and seq[-1] == k:
                        seq.append('other')
                    seq.append(k)
                if 'other' not in seq:
                    seq.insert(0, 'other')
            else:
                seq = kinds if order == 'forward' else kinds[::-1]
            eng = ValidateFlow(prog, True)
            eng.entry = f'MosCollection({row}, {order})'
            st = base_state(eng)
            items, create_src = [], []
            for i, k in enumerate(seq):
                cls_q = {'other': q['StorySend'], 'create': q['RunningOrder'], 'delete': q['RunningOrderEnd'],
                         'sub': subs[0].qualname if subs else q['RunningOrder']}[k]
                rid = 'RO-A' if (same_id or i != len(seq) - 1) else 'RO-B'
                rd, st = eng.make_reader(st, message_id=Const(i + 1), ro_id=Const(rid), mos_type=ClsV(cls_q), restore_args=TupleV((Const(f'src{i}'),)))
                items.append(rd)
                if k == 'create':
                    create_src.append(f'src{i}')
            lst = st.new(ListE('lit', len(items), len(items), items=tuple(items)))
            got = set()
            post = None
            for v, s in eng.instantiate(ClsV(coll_cls.qualname), [Ref('list', lst)], {'allow_incomplete': Const(allow)}, st, None):
                if isinstance(v, Raise):
                    got.add('reject:' + v.exc.cls)
                    continue
                got.add('accept')
                obj = s.get(v.sym)
                ro = obj.get('_ro')
                ro_src = s.get(ro.sym).get('%src') if isinstance(ro, Ref) and ro.kind == 'obj' else None
                rest = obj.get('_mos_readers')
                rest_items = None
                if isinstance(rest, Ref) and rest.kind == 'list':
                    le = s.get(rest.sym)
                    rest_items = (le.kind, tuple(x.sym if isinstance(x, Ref) else repr(x) for x in le.items), le.ordered)
                want_rest = tuple(x.sym for x, k in zip(items, seq) if k != 'create')
                post = {'ro_src': getattr(ro_src, 'v', None), 'create_src': create_src, 'rest': rest_items, 'want_rest': want_rest}
            results.append((order, sorted(got), post))
        out[row] = results
    return out


def accept_table(res: CheckResult, prog: Program):
    res.rules['ACCEPT-TABLE'] = ('the acceptance predicate of MosCollection._validate over (empty, same_id, n_create, n_delete, allow_incomplete) equals: '
                                 'non-empty and same_id and n_create = 1 and n_delete <= 1 and (allow_incomplete or n_delete = 1); every rejection is InvalidMosCollection')
    res.rules['POST-STATE'] = 'on acceptance the running order is the unique roCreate reader\'s mos_object and the remaining readers are the order-preserving filter mos_type != RunningOrder'
    fi = prog.func('MosCollection._validate')
    init = prog.func('MosCollection.__init__')
    # exceptions __init__ converts into InvalidMosCollection
    wraps = set()
    for t in ast.walk(init.node):
        if isinstance(t, ast.Try) and any('_validate' in norm(x) for x in t.body):
            for h in t.handlers:
                names = [] if h.type is None else [e.attr if isinstance(e, ast.Attribute) else getattr(e, 'id', '?') for e in (h.type.elts if isinstance(h.type, ast.Tuple) else [h.type])]
                if any(isinstance(s, ast.Raise) and s.exc is not None and 'InvalidMosCollection' in norm(s.exc) for s in h.body):
                    wraps.update(names)
    if not any('_validate' in norm(s) for s in init.node.body):
        res.error('ACCEPT-TABLE: MosCollection.__init__ no longer calls _validate (anchor vanished)')
        return
    # does __init__ forward allow_incomplete ?
    fwd = any(isinstance(c, ast.Call) and norm(c.func) == 'self._validate' and any(k.arg == 'allow_incomplete' and norm(k.value) == 'allow_incomplete' for k in c.keywords)
              for c in ast.walk(init.node))
    res.add('ACCEPT-TABLE', init.short, 'self._validate(allow_incomplete=allow_incomplete)', fwd, '' if fwd else 'allow_incomplete is not forwarded to the validation', init.file, init.node.lineno)
    post = {}
    Evaluator.prog = prog
    has_sub = bool(Evaluator(fi, (True, True, 0, 0, True)).strict_subclasses('RunningOrder'))
    rows = list(itertools.product([True, False], [True, False], [0, 1, 2, 3], [0, 1, 2, 3], [True, False], [0, 1] if has_sub else [0]))
    rows = [r for r in rows if not (r[0] and (r[2] or r[3] or r[5] or not r[1]))]
    try:
        interp = interpreted_rows(prog, rows)
        res.extra['accept_table_method'] = 'abstract interpretation of MosCollection.__init__/_validate on exact representative reader lists (two orders per row, a third with equal types apart when a type repeats)'
    except AnalysisError as e:
        interp = None
        res.extra['accept_table_method'] = f'pattern evaluator over the statements of _validate (interpretation not possible: {e})'
    if interp is not None:
        post_ok, post_detail, n_acc = True, '', 0
        for row in rows:
            if row not in interp:
                continue
            empty, same_id, nc, nd, allow, nsub = row
            want = 'accept' if spec_accept(empty, same_id, nc, nd, allow) else 'reject:InvalidMosCollection'
            label = f'empty={empty} same_id={same_id} roCreates={nc} roDeletes={nd} allow_incomplete={allow}' + (f' roReplaces={nsub}' if nsub else '')
            bad = [(o, g) for o, g, _ in interp[row] if g != [want]]
            res.add('ACCEPT-TABLE', fi.short, label, not bad,
                    '' if not bad else f'the code gives {bad[0][1]} (readers in {bad[0][0]} order), the specification {want}', fi.file, fi.node.lineno)
            for o, g, pst in interp[row]:
                if g == ['accept'] and pst is not None:
                    n_acc += 1
                    if pst['ro_src'] is None or [pst['ro_src']] != pst['create_src']:
                        post_ok, post_detail = False, f'self._ro is restored from {pst["ro_src"]}, the roCreate reader is {pst["create_src"]} ({label}, {o} order)'
                    r = pst['rest']
                    if r is None or r[1] != pst['want_rest'] or not r[2]:
                        post_ok, post_detail = False, f'the remaining readers are not "all readers except the roCreate, in order" ({label}, {o} order)'
        if not n_acc:
            res.error('POST-STATE: no accepting row was found (idiom not recognised)')
        ro_ok = post_ok or 'remaining' in post_detail
        res.add('POST-STATE', fi.short, 'self._ro = <roCreate readers>[0].mos_object', ro_ok, '' if ro_ok else post_detail, fi.file, fi.node.lineno)
        rem_ok = post_ok or 'remaining' not in post_detail
        # list.remove() compares with ==: it removes the roCreate reader only while MosReader keeps identity equality
        uses_remove = any(isinstance(c, ast.Call) and isinstance(c.func, ast.Attribute) and c.func.attr == 'remove' for c in ast.walk(fi.node))
        eq = prog.cls('MosReader').find('__eq__')
        if uses_remove and eq is not None:
            rem_ok, post_detail = False, 'the roCreate reader is dropped with list.remove() while MosReader defines __eq__: another reader comparing equal is removed instead'
        res.add('POST-STATE', fi.short, 'self._mos_readers = [mr for mr in self.mos_readers if mr.mos_type != RunningOrder]', rem_ok, '' if rem_ok else post_detail, fi.file, fi.node.lineno)
        return
    for empty, same_id, nc, nd, allow, nsub in rows:
        if empty and (nc or nd or nsub or not same_id):
            continue
        ev = Evaluator(fi, (empty, same_id, nc, nd, allow, nsub))
        try:
            try:
                ev.run([s for s in fi.node.body])
                outcome = 'accept'
            except StopIteration:
                outcome = 'accept'
            except Reject as r:
                exc = r.exc
                if exc in wraps or (exc == 'AssertionError' and 'AssertionError' in wraps):
                    exc = 'InvalidMosCollection'
                outcome = 'reject:' + exc
        except Unrecognised as u:
            res.error(f'ACCEPT-TABLE: unrecognised construct in MosCollection._validate: {u}')
            return
        want = 'accept' if spec_accept(empty, same_id, nc, nd, allow) else 'reject:InvalidMosCollection'
        label = f'empty={empty} same_id={same_id} roCreates={nc} roDeletes={nd} allow_incomplete={allow}' + (f' roReplaces={nsub}' if nsub else '')
        res.add('ACCEPT-TABLE', fi.short, label, outcome == want, '' if outcome == want else f'the code gives {outcome}, the specification {want}', fi.file, fi.node.lineno)
        if outcome == 'accept':
            post = dict(ev.vals)
    ro_from = post.get('ro_from', '')
    ok = ro_from.endswith('[0].mos_object') or ro_from.endswith('[-1].mos_object')
    res.add('POST-STATE', fi.short, 'self._ro = <roCreate readers>[0].mos_object', ok, '' if ok else f'self._ro is assigned from {ro_from!r}', fi.file, fi.node.lineno)
    ra = post.get('readers_after', '')
    ok = ' for ' in ra and 'mos_type != RunningOrder' in ra and 'sorted' not in ra and 'reversed' not in ra and post.get('readers_src_ok', True)
    rm = post.get('readers_removed')
    if not ok and rm is not None and ra in ('list(self.mos_readers)', 'list(self._mos_readers)', 'self.mos_readers.copy()', 'self._mos_readers.copy()'):
        # copy-and-remove form: list.remove() compares with ==, so it is the roCreate reader only if MosReader keeps identity equality
        eq = prog.cls('MosReader').find('__eq__')
        ok = rm.endswith('[0]') and eq is None
        if not ok:
            ra = f'{ra} followed by .remove({rm})' + (' while MosReader defines __eq__: another reader comparing equal is removed instead' if eq is not None else '')
    res.add('POST-STATE', fi.short, 'self._mos_readers = [mr for mr in self.mos_readers if mr.mos_type != RunningOrder]', ok,
            '' if ok else f'remaining readers are {ra!r}', fi.file, fi.node.lineno)


def no_assert(res: CheckResult, prog: Program):
    res.rules['NO-ASSERT'] = 'no assert statement in the package takes part in input validation (python -O removes them)'
    n = 0
    for f in prog.all_functions():
        for a in ast.walk(f.node):
            if isinstance(a, ast.Assert):
                n += 1
                res.add('NO-ASSERT', f.short, norm(a)[:120], False, 'validation written with assert disappears under python -O', f.file, a.lineno)
    res.add('NO-ASSERT', 'package', f'assert statements in {len(prog.modules)} modules', n == 0, '' if n == 0 else f'{n} assert statements')
    # positive control: the detector must see an assert in the fixture
    fixture = ast.parse('def f(x):\n    assert x, "m"\n')
    if not any(isinstance(a, ast.Assert) for a in ast.walk(fixture)):
        res.error('NO-ASSERT: positive control failed')
