"""tableflow: the two classification tables read off by interpretation (DESIGN §4 C08: TAG-TABLE, EA-TABLE).

`MosFile.from_string(<contents>)` is interpreted on documents whose shape is fixed by the harness:

  * one document per documented message element T: the root has a direct child T and none of the other documented
    elements; classification must return exactly the class documented for T (whose base_tag_name must be T);
  * a document with none of the documented elements: UnknownMosFileType;
  * for roElementAction one document per (operation, element_target has itemID, element_source has itemID [, no
    element_source]): exactly the class of the MOS roElementAction table, UnknownMosFileType for a row outside it.

The spelling of the tables (dict display, if/elif chain, table of callables, module constant) does not matter.  A row
for an undocumented element shows up as an extra outcome of every document (its probe forks), and is reported.
"""
from __future__ import annotations

from typing import Dict, List

from .domains import ClsV, Const, ElemE, ListE, NoneV, Ref, S, State, StrV
from .engine import Engine
from .front import AnalysisError, Program
from .harness import base_state, base_tag_literal
from .interp import Raise
from . import schema as sch


class TableFlow(Engine):
    def __init__(self, prog, name, build):
        super().__init__(prog, entry='classification of ' + name, summaries={})
        self.build = build
        self.probes: List[str] = []

    def new_document(self, st: State, node) -> Ref:
        root = super().new_document(st, node)
        self.build(self, st, root)
        return root

    def on_find(self, st, node, parent=None, tag=None, result=None, path=False):
        pe = st.get(parent.sym)
        if pe.origin[0] == 'root' and isinstance(tag, str) and tag not in sch.DOCUMENTED_TAGS:
            self.probes.append(tag)

    def run(self):
        mos = self.prog.cls('MosFile')
        fi = mos.find('from_string')
        if fi is None:
            raise AnalysisError('anchor vanished: MosFile.from_string')
        st = base_state(self)
        out = set()
        for v, s in self.call_function(fi, [StrV(('argument', 'contents'))], {}, st, None, self_val=ClsV(mos.qualname)):
            if isinstance(v, Raise):
                if v.exc.cls == 'ParseError' or (v.exc.cls == 'MosInvalidXML'):
                    continue            # the not-well-formed alternative of the parse primitive
                out.add('raise ' + v.exc.cls)
            elif isinstance(v, Ref) and v.kind == 'obj':
                out.add(s.get(v.sym).cls.split(':')[-1])
            else:
                out.add('returns ' + self.describe(v, s))
        return out


def child(st: State, parent: Ref, tag: str) -> Ref:
    sym = st.new(ElemE('MSG', tag, parent.sym, True, ('first', S(parent.sym), tag), schema=False))
    st.first[(parent.sym, tag)] = sym
    return Ref('elem', sym)


def absent(st: State, parent: Ref, tag: str):
    st.first[(parent.sym, tag)] = 'ABSENT'


def only_tag(tag):
    def build(eng, st, root):
        for t in sch.DOCUMENTED_TAGS:
            if t != tag:
                absent(st, root, t)
        if tag is not None:
            child(st, root, tag)
    return build


def ea_doc(op, tgt_item, src, src_item):
    def build(eng, st, root):
        for t in sch.DOCUMENTED_TAGS:
            if t != 'roElementAction':
                absent(st, root, t)
        ea = child(st, root, 'roElementAction')
        ovr = dict(st.mon.get('sym:attrovr') or {})
        ovr[ea.sym] = (('operation', Const(op) if op is not None else None),)
        st.mon['sym:attrovr'] = ovr
        tgt = child(st, ea, 'element_target')
        (child if tgt_item else absent)(st, tgt, 'itemID')
        child(st, tgt, 'storyID')
        if src:
            s = child(st, ea, 'element_source')
            (child if src_item else absent)(st, s, 'itemID')
        else:
            absent(st, ea, 'element_source')
    return build


def table_rules(res, prog: Program):
    res.rules['TAG-TABLE'] = ('classification, interpreted on one document per documented message element (that element present as a direct child, the others absent), '
                              'returns exactly the documented class, whose base_tag_name is that element; a document with none of them is UnknownMosFileType; no other element is probed')
    res.rules['EA-TABLE'] = ('classification of roElementAction, interpreted per (operation, element_target has itemID, element_source has itemID), returns exactly the class of the '
                             'MOS roElementAction table and UnknownMosFileType outside it')
    fi = prog.func('MosFile._classify') if 'MosFile._classify' in {f.short for f in prog.all_functions()} else prog.cls('MosFile').find('from_string')
    ea_classes = set(sch.EA_TABLE.values())
    extra_probes = set()
    for tag, cname in sch.DOCUMENTED_TAGS.items():
        fl = TableFlow(prog, f'<{tag}>', only_tag(tag))
        got = fl.run()
        extra_probes.update(fl.probes)
        if tag == 'roElementAction':
            ok = bool(got) and all(g in ea_classes or g == 'raise UnknownMosFileType' for g in got)
            detail = '' if ok else f'a roElementAction document is classified as {sorted(got)}'
        else:
            ok = got == {cname}
            detail = '' if ok else f'a document whose message element is {tag} is classified as {sorted(got) or "nothing"}, documentation says {cname}'
            if ok and cname in {c.name for c in prog.classes.values()}:
                lit = base_tag_literal(None, prog.cls(cname))
                if lit != tag:
                    ok, detail = False, f'{cname}.base_tag_name returns {lit!r} but the class is chosen for {tag!r}'
        res.add('TAG-TABLE', fi.short, f'{tag!r} -> {cname}', ok, detail, fi.file, fi.node.lineno)
    fl = TableFlow(prog, 'no documented element', only_tag(None))
    got = fl.run()
    extra_probes.update(fl.probes)
    known_other = {'mosromgrmeta', 'mosID', 'ncsID', 'messageID'}
    undocumented = sorted(p for p in extra_probes if p not in known_other)
    ok = got <= {'raise UnknownMosFileType'} and bool(got) and not undocumented
    if undocumented:
        detail = f'classification probes the undocumented element(s) {undocumented}: got {sorted(got)}'
    else:
        detail = '' if ok else f'a document without any documented message element is classified as {sorted(got)}'
    res.add('TAG-TABLE', fi.short, 'no documented element -> UnknownMosFileType', ok, detail, fi.file, fi.node.lineno)
    # roCreate wins over a roDelete that is present as well (a written-out completed running order must stay a RunningOrder
    # even if a later change made the search look below the root)
    def both(eng, st, root):
        for t in sch.DOCUMENTED_TAGS:
            if t not in ('roCreate', 'roDelete'):
                absent(st, root, t)
        child(st, root, 'roCreate')
        child(st, root, 'roDelete')
    got = TableFlow(prog, '<roCreate> + <roDelete>', both).run()
    res.add('TAG-TABLE', fi.short, 'roCreate is probed before roDelete', got == {'RunningOrder'},
            '' if got == {'RunningOrder'} else f'a document with both roCreate and roDelete is classified as {sorted(got)}: a completed running order read back would not be a RunningOrder', fi.file, fi.node.lineno)
    # ---- roElementAction table
    fe = prog.func('ElementAction._classify') if 'ElementAction._classify' in {f.short for f in prog.all_functions()} else fi
    for op in ('REPLACE', 'DELETE', 'INSERT', 'SWAP', 'MOVE'):
        for ti in (False, True):
            for si in (False, True):
                want = sch.EA_TABLE.get((op, ti, si))
                variants = [(True, si)]        # (a roElementAction without element_source is outside the table: library exception, decided by CLASSIFY-TOTAL)
                gots = {}
                for src, s_item in variants:
                    gots['source present' if src else 'no element_source'] = TableFlow(prog, f'roElementAction {op} {ti} {si}', ea_doc(op, ti, src, s_item)).run()
                exp = {want} if want else {'raise UnknownMosFileType'}
                bad = {k: sorted(v) for k, v in gots.items() if v != exp}
                res.add('EA-TABLE', fe.short, f'{(op, ti, si)} -> {want or "UnknownMosFileType"}', not bad,
                        '' if not bad else f'classified as {bad}, the MOS table says {sorted(exp)}', fe.file, fe.node.lineno)
    for op, label in (('FROBNICATE', 'unknown operation'), (None, 'no operation attribute')):
        got = TableFlow(prog, f'roElementAction {label}', ea_doc(op, False, True, False)).run()
        ok = got == {'raise UnknownMosFileType'}
        res.add('EA-TABLE', fe.short, f'{label} -> UnknownMosFileType', ok, '' if ok else f'classified as {sorted(got)}', fe.file, fe.node.lineno)
