"""Exception class hierarchy: builtin table + the classes defined by the repository."""
from .front import Program

BUILTIN_PARENT = {
    'BaseException': None, 'Exception': 'BaseException',
    'ArithmeticError': 'Exception', 'ZeroDivisionError': 'ArithmeticError', 'OverflowError': 'ArithmeticError',
    'AssertionError': 'Exception', 'AttributeError': 'Exception',
    'LookupError': 'Exception', 'IndexError': 'LookupError', 'KeyError': 'LookupError',
    'NameError': 'Exception', 'UnboundLocalError': 'NameError',
    'OSError': 'Exception', 'IOError': 'Exception', 'FileNotFoundError': 'OSError', 'IsADirectoryError': 'OSError',
    'PermissionError': 'OSError', 'RuntimeError': 'Exception', 'NotImplementedError': 'RuntimeError',
    'RecursionError': 'RuntimeError', 'StopIteration': 'Exception',
    'SyntaxError': 'Exception', 'ParseError': 'SyntaxError',
    'TypeError': 'Exception', 'ValueError': 'Exception', 'UnicodeError': 'ValueError',
    'UnicodeDecodeError': 'UnicodeError',
    'Warning': 'Exception', 'DeprecationWarning': 'Warning', 'UserWarning': 'Warning',
    'RuntimeWarning': 'Warning', 'FutureWarning': 'Warning',
    'SystemExit': 'BaseException', 'KeyboardInterrupt': 'BaseException',
    'ClientError': 'Exception', 'BotoCoreError': 'Exception',
}


class ExcHier:
    def __init__(self, prog: Program):
        self.prog = prog

    def parents(self, name):
        seen = []
        while name is not None and name not in seen:
            seen.append(name)
            c = self.prog.classes.get(name)
            if c is not None:
                nxt = None
                for k in c.mro[1:]:
                    nxt = k.name
                    break
                if nxt is None:
                    ext = c.ext_bases
                    nxt = ext[0].split('.')[-1] if ext else None
                name = nxt
            else:
                name = BUILTIN_PARENT.get(name)
        return seen

    def isa(self, name, handler) -> bool:
        if handler in ('BaseException',):
            return True
        return handler in self.parents(name)

    def is_repo(self, name) -> bool:
        return name in self.prog.classes

    def known(self, name) -> bool:
        return name in self.prog.classes or name in BUILTIN_PARENT
