"""Property -> rules mapping: builds one CheckResult per property from the engine results."""
from __future__ import annotations

from typing import Dict, List

from . import schema
from .analysis import merge_results, null_results, program
from .report import CheckResult

RULES = {
    'IDX-DOMAIN': 'every index reaching insert/setitem on a parent is a child position of that same parent (not a position in a filtered list, a literal, or an index of another parent)',
    'IDX-FRESH': 'no index is used for insertion after a removal/insertion in the same parent made it stale (unless compensated by the accepted comparison idiom)',
    'IDX-ADVANCE': 'an enumerate(start=<index>) counter used for insertion advances only in iterations that insert exactly one node at it',
    'LOOP-INVARIANT-IDX': 'a position is not reused to insert a later element before a node this merge inserted earlier',
    'IDX': 'index typestate (IDX-DOMAIN, IDX-FRESH, IDX-ADVANCE, LOOP-INVARIANT-IDX) at every insert/setitem site',
    'CONSERVE': 'move/swap merges re-insert exactly the nodes they remove on every normal return; delete merges never add',
    'ENUM-PER-ID': 'plural message accessors yield one element per named ID / carried element; the first-ID read is never applied to a multi-ID container',
    'RETURNS-RO': 'merge returns the running order it was given',
    'SEARCH-SUMMARY': 'the child-search helper returns a direct child of its parent argument with the requested tag and id, first in document order, with that child\'s own index',
    'STORY-SCOPED': 'item lookups are made inside the story located through the message\'s story ID',
    'FRAME': 'a merge mutates only the parent its role allows and removes only nodes located through IDs/tags carried by the message; no stores into running-order nodes',
    'WILDCARD': 'an ID operand that may be None (blank/absent reference) never turns a lookup into "first child of that tag"',
    'ID-FALLBACK': 'a wrapper built with an explicit ID that is blank does not resolve its id to another ID of the container',
    'META-SCHEMA': 'a mosExternalMetadata block is replaced only after its mosSchema was compared with the carried block\'s',
    'MSG-READONLY': 'no merge mutates the message tree',
    'PAYLOAD-PURE': 'carried elements reach the running order by identity or deepcopy only; the only edits of a copy are the two documented conversions',
    'PAYLOAD-ALL': 'loops over carried elements have no break/slice/filter other than the duplicate-story branch',
    'NO-SHARE': 'no message-owned subtree is linked into the running order without copy.deepcopy',
    'NO-RO-CAPTURE': 'no merge stores a running-order element into the message object',
    'VALIDATE-BEFORE-MUTATE': 'no raise (explicit or modelled implicit) is reachable after the first mutation of the running order',
    'MISS-REPORTED': 'every id-keyed lookup miss reaches raise MosMergeError or exactly one warning before the merge returns',
    'WARN-CATEGORY': 'warnings use the documented category for the kind of element that was missing/duplicated',
    'SILENT-SUCCESS': 'no warning on a path where nothing was missing or duplicated; one warning per miss',
    'NO-BUILTIN-ESCAPE': 'no exception other than the library\'s own escapes the entry point for schema-shaped input',
    'CLASSIFY-TOTAL': 'classification of any well-formed document raises only MosInvalidXML / UnknownMosFileType',
    'NO-ELEM-BOOL': 'no Element is used in a boolean context',
    'INSPECT-TOTAL': 'inspect() raises nothing for a schema-shaped message (element text may be None)',
}

TRUSTED = [
    'CPython ast parser',
    'primitive model of xml.etree.ElementTree (find/findall/iteration/remove/insert/append/item assignment), copy.deepcopy, warnings.warn (DESIGN §3)',
    'MOS DTD presence/cardinality table and role table (mosverif/schema.py)',
]

ASSUME = [
    'schema-shaped documents: children listed in schema.REQUIRED are present; storyID/itemID text may be blank',
    'insert/append/deepcopy and attribute reads on present elements do not raise',
    'int()/float()/dateutil.parse() succeed on present, non-blank value tags',
]


def level(cname: str) -> str:
    return schema.ROLES.get(cname, ('?', '?', None))[1]


def class_of(func: str) -> str:
    return func.split('.')[0] if '.' in func else ''


def collect_merge(res: CheckResult, repo: str, want=lambda cname: True) -> Dict[str, dict]:
    mr = merge_results(repo)
    ok = {}
    for cname, r in mr.items():
        if not r.get('ok'):
            if want(cname):
                res.error(r.get('error', f'{cname}: analysis failed'))
                if r.get('partial'):
                    ok[cname] = r        # findings made before the breakdown are still reported
            else:
                res.extra.setdefault('unanalysed_classes_outside_scope', []).append(cname)
        else:
            ok[cname] = r
            for note, n in r['notes'].items():
                res.extra.setdefault('imprecision_notes', {})[note] = n
    missing = [c for c in schema.ROLES if c not in mr]
    if missing:
        res.error(f'anchor vanished: merge classes {missing} not found in the MosFile family')
    extra = [c for c in mr if c not in schema.ROLES]
    if extra:
        res.error(f'new MosFile subclasses without a role-table row: {extra} (extend mosverif/schema.py ROLES)')
    res.extra['functions_analysed'] = len({f for r in ok.values() for f in r['functions']})
    res.extra['paths_enumerated'] = sum(len(r['outcomes']) for r in ok.values())
    res.extra['call_sites'] = sum(len(v) for r in ok.values() for v in r['sites'].values())
    summ = next((r['summaries'] for r in ok.values() if r.get('summaries')), {})
    res.extra['search_function_summaries'] = list(summ.values())
    if not summ:
        res.error('no child-search helper was recognised (utils.xml.find_child anchor vanished or idiom not recognised)')
    return ok


def add_findings(res: CheckResult, results, rules, want=lambda cname, f: True, as_rule=None):
    for cname, r in results.items():
        for f in r['findings']:
            if f['rule'] in rules and want(cname, f):
                res.add(as_rule(f) if as_rule else f['rule'], f['func'], f['construct'], False, f['detail'], f['file'], f['line'], f['witness'])


def add_sites(res: CheckResult, results, kind, rule, want=lambda cname: True):
    for cname, r in results.items():
        if not want(cname):
            continue
        for func, construct in r['sites'].get(kind, []):
            res.add(rule, func, construct, True)


def summary_obligations(res: CheckResult, results):
    summ = next((r['summaries'] for r in results.values() if r.get('summaries')), {})
    for q, s in summ.items():
        problems = list(s['problems'])
        if s['index'] != 'fresh':
            problems.append(f'returned index is {s["index"]}')
        if not s['direct_children_only']:
            problems.append('searches beyond the direct children of its parent argument')
        if not s['first_match_in_document_order']:
            problems.append('does not return the first match in document order')
        if not s['id_equality']:
            problems.append('a string id does not constrain the match to an equal id')
        if s['may_raise']:
            problems.append('may raise ' + ','.join(s['may_raise']))
        res.add('SEARCH-SUMMARY', s['function'], 'summary of ' + s['function'], not problems, '; '.join(problems), s['file'], 0)


IDX_RULES = {'IDX-DOMAIN', 'IDX-FRESH', 'IDX-ADVANCE', 'LOOP-INVARIANT-IDX'}


def merge_asserts(res: CheckResult, repo: str, want_c=None):
    """assert statements in merge methods (and the tree helpers they use) vanish under python -O: whatever they guard
    (a duplicate reference, a missing node) then hits the mutation code unvalidated."""
    import ast as _ast
    prog = program(repo)
    res.rules['NO-ASSERT'] = 'no assert statement guards a merge or a tree helper (python -O removes it and the guarded input reaches the edits)'
    n = 0
    for f in prog.all_functions():
        in_scope = (f.cls is not None and f.cls.name in schema.ROLES and (want_c is None or want_c(f.cls.name))) or f.module.name.endswith('utils.xml')
        if not in_scope:
            continue
        n += 1
        for a in _ast.walk(f.node):
            if isinstance(a, _ast.Assert):
                res.add('NO-ASSERT', f.short, norm_text(a)[:120], False,
                        'validation written with assert disappears under python -O: the input it rejects then reaches the mutation code', f.file, a.lineno)
    res.add('NO-ASSERT', 'merges', f'assert statements in {n} merge / helper functions', True)
    # the same for the other interpreter switch: an Element used as a condition raises under -W error (and is false for a
    # childless element), wherever in the merge it stands
    res.rules['NO-ELEM-BOOL'] = RULES['NO-ELEM-BOOL'] + ' inside a merge or a tree helper (false for a childless element; DeprecationWarning, an exception under -W error)'
    hits = 0
    for cname, r in collect_merge(res, repo, want_c or (lambda c: True)).items():
        if want_c is not None and not want_c(cname):
            continue
        for f in r['findings']:
            if f['rule'] == 'NO-ELEM-BOOL':
                hits += 1
                res.add('NO-ELEM-BOOL', f['func'], f['construct'], False, f['detail'], f['file'], f['line'], f['witness'])
    res.add('NO-ELEM-BOOL', 'merges', 'conditions evaluated on Element values in the interpreted merges', not hits)


def norm_text(node):
    from .front import norm as _norm
    return _norm(node)


def order_property(prop: str, lvl: str, repo: str, tier: str) -> CheckResult:
    res = CheckResult(prop, tier)
    res.rules = {k: RULES[k] for k in ('IDX', 'IDX-DOMAIN', 'IDX-FRESH', 'IDX-ADVANCE', 'LOOP-INVARIANT-IDX', 'CONSERVE', 'ENUM-PER-ID',
                                        'RETURNS-RO', 'SEARCH-SUMMARY')}
    if lvl == 'item':
        res.rules['STORY-SCOPED'] = RULES['STORY-SCOPED']
    want_c = lambda c: level(c) == lvl or (lvl == 'story' and level(c) == 'ro')   # noqa: E731
    results = collect_merge(res, repo, want_c)
    want = lambda c, f: want_c(c)                                                  # noqa: E731
    add_sites(res, results, 'index-use', 'IDX', want_c)
    add_findings(res, results, IDX_RULES, want, as_rule=lambda f: 'IDX')
    for cname, r in results.items():
        if not want_c(cname):
            continue
        kind = schema.ROLES[cname][0]
        bad = [f for f in r['findings'] if f['rule'] == 'CONSERVE']
        if kind in ('MOVE', 'SWAP', 'DELETE', 'REPLACE', 'SEND'):
            res.add('CONSERVE', f'{cname}.merge', f'node conservation of a {kind} merge', not bad,
                    '; '.join(f['construct'] + ' ' + f['detail'] for f in bad), bad[0]['file'] if bad else '', bad[0]['line'] if bad else 0)
        bad = [f for f in r['findings'] if f['rule'] == 'RETURNS-RO']
        res.add('RETURNS-RO', f'{cname}.merge', 'return value', not bad, '; '.join(f['construct'] for f in bad))
        enum_bad = [f for f in r['findings'] if f['rule'] == 'ENUM-PER-ID']
        if not enum_bad:
            res.add('ENUM-PER-ID', cname, 'message accessors used by merge', True, '')
        for f in enum_bad:
            res.add('ENUM-PER-ID', f['func'], f['construct'], False, f['detail'], f['file'], f['line'], f['witness'])
    # "moves and swaps never add or lose an element, whatever the input": an exceptional exit after the first mutation loses/duplicates one
    add_findings(res, results, {'VALIDATE-BEFORE-MUTATE'}, want=lambda c, f: want_c(c) and schema.ROLES[c][0] in ('MOVE', 'SWAP'),
                 as_rule=lambda f: 'CONSERVE')
    add_findings(res, results, {'UNMODELLED-MUTATION'}, want, as_rule=lambda f: 'IDX')
    add_findings(res, results, {'SWAP-EXCHANGE'}, want, as_rule=lambda f: 'CONSERVE')
    add_findings(res, results, {'LIVE-ITER'}, want, as_rule=lambda f: 'IDX')
    add_findings(res, results, {'DELETE-REMOVES'}, want, as_rule=lambda f: 'CONSERVE')
    add_findings(res, results, {'MOVE-ACTS'}, want, as_rule=lambda f: 'CONSERVE')
    if lvl == 'item':
        add_sites(res, {c: r for c, r in results.items() if want_c(c)}, 'item-lookup', 'STORY-SCOPED')
        add_findings(res, results, {'STORY-SCOPED'}, want)
    summary_obligations(res, results)
    stale_cache(res, repo, merges=True)
    merge_asserts(res, repo, want_c)
    from . import rules_shape as _rs
    _rs.no_shared_memo(res, program(repo))
    res.floors = {'IDX': 8 if lvl == 'story' else 5, 'SEARCH-SUMMARY': 1, 'CONSERVE': 4}
    what = 'story' if lvl == 'story' else 'item'
    res.explanation = (
        f'Static analysis (abstract interpretation with index typestate) of every {what}-level merge method entered through '
        'RunningOrder.__add__. Decided: the structural clauses IDX-DOMAIN, IDX-FRESH, IDX-ADVANCE, LOOP-INVARIANT-IDX, CONSERVE, '
        'ENUM-PER-ID, RETURNS-RO and the conformance of the child-search helper. Each clause is a necessary condition of the '
        f'property (breaking it yields a wrong {what} order or a lost {what} for some input). NOT decided: equality of the resulting '
        'ID sequence with the protocol\'s for every input (a runtime sequence equality).')
    res.assumptions = ASSUME
    res.trusted_base = TRUSTED
    return res


def prop_C01(repo, tier):
    return order_property('C01', 'story', repo, tier)


def prop_C02(repo, tier):
    return order_property('C02', 'item', repo, tier)


def prop_C03(repo, tier):
    res = CheckResult('C03', tier)
    res.rules = {k: RULES[k] for k in ('FRAME', 'WILDCARD', 'ID-FALLBACK', 'META-SCHEMA', 'STORY-SCOPED')}
    results = collect_merge(res, repo)
    for kind in ('remove', 'insert', 'append', 'setitem'):
        add_sites(res, results, kind, 'FRAME')
    add_sites(res, results, 'lookup', 'WILDCARD')
    add_sites(res, results, 'item-lookup', 'STORY-SCOPED')
    add_sites(res, results, 'explicit-id', 'ID-FALLBACK')
    add_sites(res, results, 'meta-replace', 'META-SCHEMA')
    add_findings(res, results, {'FRAME', 'WILDCARD', 'ID-FALLBACK', 'META-SCHEMA', 'STORY-SCOPED', 'UNMODELLED-MUTATION'},
                 as_rule=lambda f: 'FRAME' if f['rule'] == 'UNMODELLED-MUTATION' else f['rule'])
    stale_cache(res, repo, merges=True)
    from . import rules_shape as _rs
    _rs.no_shared_memo(res, program(repo))
    res.floors = {'FRAME': 22, 'WILDCARD': 22, 'META-SCHEMA': 1}
    res.explanation = (
        'Static analysis of all merge methods: FRAME (who may be mutated, from the effect traces and the role table), WILDCARD '
        '(a possibly-None ID never selects "first child"), ID-FALLBACK (explicit blank ID never replaced by another ID of the '
        'container), STORY-SCOPED (item lookups inside the addressed story), META-SCHEMA (mosExternalMetadata matched on mosSchema). '
        'These are necessary conditions of "a merge changes only what the message names". NOT decided: structural equality of '
        'every unaddressed element before/after a merge (runtime).')
    res.assumptions = ASSUME
    res.trusted_base = TRUSTED
    return res


def prop_C04(repo, tier):
    res = CheckResult('C04', tier)
    res.rules = {k: RULES[k] for k in ('PAYLOAD-PURE', 'PAYLOAD-ALL', 'MSG-READONLY', 'IDX')}
    res.rules['SPLICE'] = 'in the roStorySend conversion the children of storyBody are inserted at an advancing valid position of the copy, in order, and storyBody is removed afterwards'
    results = collect_merge(res, repo)
    add_sites(res, results, 'sink', 'PAYLOAD-PURE')
    add_sites(res, results, 'retag', 'PAYLOAD-PURE')
    add_sites(res, results, 'payload-loop', 'PAYLOAD-ALL')
    add_sites(res, results, 'copy-mutation', 'SPLICE')
    add_findings(res, results, {'PAYLOAD-PURE', 'PAYLOAD-ALL', 'MSG-READONLY', 'SPLICE'})
    add_findings(res, results, {'NO-SHARE'}, want=lambda c, f: 'stays referenced by the message object' in f['detail'], as_rule=lambda f: 'PAYLOAD-PURE')
    # a metadata block located by tag alone (schema not compared, or compared as None == None) can be a block this very message
    # inserted a moment ago: a carried metadata element is then overwritten by the next one
    add_findings(res, results, {'META-SCHEMA'}, as_rule=lambda f: 'PAYLOAD-ALL')
    # a loop over carried elements that is left early (return / break after a warned element) never delivers the remaining ones
    add_findings(res, results, {'NO-EARLY-EXIT'}, want=lambda c, f: schema.ROLES[c][0] in ('INSERT', 'APPEND', 'REPLACE', 'SEND', 'META'),
                 as_rule=lambda f: 'PAYLOAD-ALL')
    # index typestate on the deep copy (conversion) belongs here
    add_findings(res, results, IDX_RULES, want=lambda c, f: 'convert' in f['func'] or f['func'].startswith('RunningOrderReplace'),
                 as_rule=lambda f: 'SPLICE')
    res.rules['RO-REPLACE'] = 'roReplace removes the running-order element and inserts the deep copy of the carried one, re-tagged roCreate, in its place'
    for cname, r in results.items():
        if schema.ROLES[cname][0] == 'ROREPLACE' and not r.get('partial'):
            ops = {tuple(map(tuple, o['rootops'])) for o in r['outcomes'] if o['result'] == 'return' and not o.get('guard_present')}
            ok = ops == {(('remove', 'roCreate', 'RO'), ('insert', 'roCreate', 'COPY'))}
            res.add('RO-REPLACE', f'{cname}.merge', 'remove(roCreate) ; insert(deepcopy re-tagged roCreate)', ok, '' if ok else f'root operations: {sorted(ops)}')
    stale_cache(res, repo, merges=True, jobs=('msgaccessors',), funcs=lambda f: f.split('.')[-1] in ('story', 'stories', 'item', 'items', 'source_stories', 'source_story', 'base_tag'))
    res.floors = {'PAYLOAD-PURE': 12, 'SPLICE': 1, 'PAYLOAD-ALL': 8, 'RO-REPLACE': 1}
    res.explanation = (
        'Static analysis of the payload flow in all merges: every carried element reaches its insertion through identity or '
        'copy.deepcopy (PAYLOAD-PURE), no message/payload subtree is edited except the two documented conversions (retag to '
        'story/item/roCreate; storyBody splice, checked with the index typestate as SPLICE), loops over carried elements are '
        'complete (PAYLOAD-ALL). NOT decided: deep equality of arbitrary payload subtrees (runtime; deepcopy/ElementTree trusted).')
    res.assumptions = ASSUME
    res.trusted_base = TRUSTED
    return res


def prop_C05(repo, tier):
    res = CheckResult('C05', tier)
    res.rules = {'VALIDATE-BEFORE-MUTATE': RULES['VALIDATE-BEFORE-MUTATE'],
                 'MAY-ALIAS-REMOVE': 'two lookups in one parent that may return the same node are not both removed without a distinctness test (second remove raises ValueError after the first)'}
    results = collect_merge(res, repo)
    add_sites(res, results, 'raise', 'VALIDATE-BEFORE-MUTATE')
    add_sites(res, results, 'remove', 'MAY-ALIAS-REMOVE')
    for cname in results:
        res.add('VALIDATE-BEFORE-MUTATE', f'{cname}.merge', 'all exceptional exits of the merge', True)

    def as_rule(f):
        return 'MAY-ALIAS-REMOVE' if 'remove' in f['construct'] and f['construct'].startswith('ValueError') else 'VALIDATE-BEFORE-MUTATE'
    add_findings(res, results, {'VALIDATE-BEFORE-MUTATE'}, as_rule=as_rule)
    # second pass: nothing is assumed about the message below its envelope (messageID + message element present)
    from .analysis import envelope_results
    for cname, r in envelope_results(repo).items():
        if not r.get('ok'):
            res.error('envelope-only pass: ' + r.get('error', cname))
            continue
        res.add('VALIDATE-BEFORE-MUTATE', f'{cname}.merge', 'all exceptional exits of the merge, message not assumed schema-shaped', True)
        for f in r['findings']:
            if f['rule'] == 'VALIDATE-BEFORE-MUTATE':
                res.add(as_rule(f), f['func'], f['construct'], False, '[message not schema-shaped] ' + f['detail'], f['file'], f['line'], f['witness'])
    merge_asserts(res, repo)
    stale_cache(res, repo, merges=True)
    from . import rules_shape as _rs
    _rs.no_shared_memo(res, program(repo))
    res.floors = {'VALIDATE-BEFORE-MUTATE': 40, 'MAY-ALIAS-REMOVE': 10}
    res.explanation = (
        'Static analysis: in the interprocedural path enumeration of every merge (callees inlined, loops iterated to a fix-point so '
        'that "the k-th lookup fails after k-1 elements were moved" is one abstract path), no exceptional exit - explicit raise, '
        'modelled implicit exception of a partial operation, or remove() of a possibly already detached node - is reachable once a '
        'mutation of the running-order tree has happened. The rule is evaluated twice: for schema-shaped messages, and again '
        'with nothing assumed about the message below its envelope (only messageID and the message element are taken as '
        'present), because the property quantifies over every message that makes the merge raise. This is the whole property '
        'within the effect model of DESIGN §3.')
    res.assumptions = ASSUME + ['second pass: only the envelope of the message (messageID, message element) is assumed present']
    res.trusted_base = TRUSTED
    return res


def prop_C06(repo, tier):
    res = CheckResult('C06', tier)
    res.rules = {k: RULES[k] for k in ('MISS-REPORTED', 'WARN-CATEGORY', 'SILENT-SUCCESS', 'ENUM-PER-ID')}
    res.rules['NO-EARLY-EXIT'] = 'after a warned miss inside a loop over several named elements the remaining elements are still applied (no return/break)'
    results = collect_merge(res, repo)
    add_sites(res, results, 'id-lookup', 'MISS-REPORTED')
    add_sites(res, results, 'warn', 'WARN-CATEGORY')
    add_sites(res, results, 'warn', 'SILENT-SUCCESS')
    for cname, r in results.items():
        enum_bad = [f for f in r['findings'] if f['rule'] == 'ENUM-PER-ID']
        if not enum_bad:
            res.add('ENUM-PER-ID', cname, 'message accessors used by merge', True, '')
        for f in enum_bad:
            res.add('ENUM-PER-ID', f['func'], f['construct'], False, f['detail'], f['file'], f['line'], f['witness'])
        res.add('NO-EARLY-EXIT', f'{cname}.merge', 'loops over named elements', True)
    add_findings(res, results, {'MISS-REPORTED', 'WARN-CATEGORY', 'SILENT-SUCCESS', 'NO-EARLY-EXIT'})
    add_findings(res, results, {'LIVE-ITER'}, as_rule=lambda f: 'NO-EARLY-EXIT')
    # "every ID listed is acted upon": a move that found its target and sources must not return without editing, a delete must remove what it found
    add_findings(res, results, {'MOVE-ACTS', 'DELETE-REMOVES'}, as_rule=lambda f: 'NO-EARLY-EXIT')
    res.rules['ALWAYS-DISPATCH'] = 'RunningOrder.__add__ hands every message to its merge() unless the running order is completed (then it raises): no message is dropped without a trace'
    res.add('ALWAYS-DISPATCH', 'RunningOrder.__add__', 'normal returns of ro + message', True)
    add_findings(res, results, {'ALWAYS-DISPATCH'})
    stale_cache(res, repo, merges=True)
    from . import rules_shape as _rs
    _rs.no_shared_memo(res, program(repo))
    res.floors = {'MISS-REPORTED': 22, 'WARN-CATEGORY': 2}
    res.explanation = (
        'Static analysis of every merge: each id-keyed lookup miss (and each duplicate-story test) creates a pending report that must '
        'be cleared by raise MosMergeError or by exactly one warnings.warn of the matching category before the merge returns; a '
        'warning with nothing pending is a violation (SILENT-SUCCESS / one per miss); plural accessors enumerate per ID (ENUM-PER-ID). '
        'Whole property within the effect model; NOT decided: whether the interpreter\'s warning filter displays repeated messages.')
    res.assumptions = ASSUME
    res.trusted_base = TRUSTED
    return res


def prop_C13(repo, tier):
    res = CheckResult('C13', tier)
    res.rules = {k: RULES[k] for k in ('NO-SHARE', 'MSG-READONLY', 'NO-RO-CAPTURE')}
    results = collect_merge(res, repo)
    add_sites(res, results, 'sink', 'NO-SHARE')
    for cname in results:
        res.add('MSG-READONLY', f'{cname}.merge', 'effects on message-owned nodes', True)
        res.add('NO-RO-CAPTURE', f'{cname}.merge', 'attribute stores into the message object', True)
    add_findings(res, results, {'NO-SHARE', 'MSG-READONLY', 'NO-RO-CAPTURE'})
    res.rules['NO-HIDDEN-STATE'] = 'no merge stores attributes on the running-order object or on the message object: what a merge does is a function of the two documents only'
    for cname in results:
        res.add('NO-HIDDEN-STATE', f'{cname}.merge', 'attribute stores on MOS objects during the merge', True)
    add_findings(res, results, {'NO-HIDDEN-STATE'})
    from . import rules_shape
    rules_shape.fresh_read(res, program(repo))
    rules_shape.no_shared_memo(res, program(repo))
    stale_cache(res, repo, merges=True, jobs=('msgaccessors',))
    res.floors = {'NO-SHARE': 14, 'MSG-READONLY': 20}
    res.explanation = (
        'Static taint analysis on element provenance: sources are all elements reachable from the message (self._xml), sinks are the '
        'node operands of insert/append/item-assignment under the running-order tree, the only sanitiser is copy.deepcopy. Also: no '
        'effect of any merge has a message-owned parent/target, no running-order element is stored into the message object, and the '
        'collection re-reads every message (FRESH-READ). These give "merging depends only on content; objects stay independent".')
    res.assumptions = ASSUME
    res.trusted_base = TRUSTED
    return res


def collect_null(res: CheckResult, repo: str, kinds):
    out = []
    for r in null_results(repo, kinds):
        if not r.get('ok'):
            res.error(r.get('error', 'nullflow job failed'))
        else:
            out.append(r)
            for note, n in r['notes'].items():
                res.extra.setdefault('imprecision_notes', {})[note] = n
    return out


def prop_C12(repo, tier):
    res = CheckResult('C12', tier)
    res.rules = {k: RULES[k] for k in ('NO-BUILTIN-ESCAPE', 'CLASSIFY-TOTAL')}
    res.rules['HANDLER-COVERS'] = 'MosCollection.merge downgrades exactly MosMergeError (so escape-freedom of merges is what makes a non-strict merge run to the end)'
    results = collect_merge(res, repo)
    for cname in results:
        res.add('NO-BUILTIN-ESCAPE', f'{cname}.merge', f'RunningOrder.__add__ -> {cname}.merge', True)
    add_findings(res, results, {'NO-BUILTIN-ESCAPE'})
    for r in collect_null(res, repo, ('classify',)):
        res.add('CLASSIFY-TOTAL', 'MosFile.' + r['name'], 'classification of any well-formed document', True)
        for f in r['findings']:
            if f['rule'] == 'CLASSIFY-TOTAL':
                res.add('CLASSIFY-TOTAL', f['func'], f['construct'], False, f['detail'], f['file'], f['line'], f['witness'])
    from . import rules_shape
    rules_shape.handler_covers(res, program(repo))
    # a merge that hands back something else than the running order makes the *next* `ro += message` fail with TypeError
    n_ret = 0
    for cname, r in results.items():
        for f in r['findings']:
            if f['rule'] == 'RETURNS-RO':
                n_ret += 1
                res.add('NO-BUILTIN-ESCAPE', f['func'], f['construct'], False,
                        f['detail'] + ' (the next message added to that result fails with TypeError / AttributeError)', f['file'], f['line'], f['witness'])
    # the collection's own loop, interpreted over symbolic messages that merge or raise MosMergeError
    from .analysis import coll_results
    for r in coll_results(repo):
        if not r['ok']:
            res.error(r['error'])
            continue
        lib = ('MosMergeError', 'MosCompletedMergeError')
        bad = sorted({o['result'] for o in r['outcomes'] if o['result'].startswith('raise') and o['result'][6:] not in lib})
        res.add('NO-BUILTIN-ESCAPE', 'MosCollection.merge', f'exceptions leaving merge(strict={r["strict"]}) when every message merges or raises MosMergeError', not bad,
                '' if not bad else f'MosCollection.merge(strict={r["strict"]}) can end with {bad}')
    stale_cache(res, repo, merges=True)
    from . import rules_shape as _rsd
    _rsd.no_shared_memo(res, program(repo))
    res.floors = {'NO-BUILTIN-ESCAPE': 20, 'CLASSIFY-TOTAL': 3}
    res.explanation = (
        'Static nullness / partial-operation analysis with exception flow. For each of the 24 merges entered through '
        'RunningOrder.__add__ with a schema-shaped message (required tags present; ID texts possibly None; ID lists with their DTD '
        'cardinality, e.g. element_source/storyID is 1+, not exactly 2) and any running order, the only exceptional exits are '
        'MosMergeError subclasses; for classification of any well-formed document the only exits are MosInvalidXML / '
        'UnknownMosFileType (plus OSError for a path). MosCollection.merge catches exactly MosMergeError (HANDLER-COVERS).')
    res.assumptions = ASSUME
    res.trusted_base = TRUSTED
    return res


PROPS = {'C01': prop_C01, 'C02': prop_C02, 'C03': prop_C03, 'C04': prop_C04, 'C05': prop_C05, 'C06': prop_C06,
         'C12': prop_C12, 'C13': prop_C13}

TECHNIQUE = {
    'C01': 'static analysis: abstract interpretation with index typestate (mergeflow)',
    'C02': 'static analysis: abstract interpretation with index typestate (mergeflow)',
    'C03': 'static analysis: effect/frame analysis + nullness of ID operands (mergeflow)',
    'C04': 'static analysis: provenance taint + typestate on the payload copy (mergeflow)',
    'C05': 'static analysis: reachability of exceptional exits after mutation effects (mergeflow)',
    'C06': 'static analysis: typestate of pending miss reports vs. raise/warn effects (mergeflow)',
    'C12': 'static analysis: nullness / partial-operation analysis with exception flow (nullflow)',
    'C13': 'static analysis: provenance taint analysis, sanitiser = copy.deepcopy (mergeflow)',
}


# ======================================================================= C15 / C17 / C20 / C08 / C07 / C14
READS_OWN_TAG = {
    'Story.id': ('story', 'storyID'), 'Story.slug': ('story', 'storySlug'), 'Item.id': ('item', 'itemID'),
    'Item.slug': ('item', 'itemSlug'), 'Item.type': ('item', 'objType'), 'Item.object_id': ('item', 'objID'),
    'Item.mos_id': ('item', 'mosID'), 'RunningOrder.ro_slug': ('roCreate', 'roSlug'), 'RunningOrder.ro_id': ('roCreate', 'roID'),
    'RunningOrder.message_id': ('#root', 'messageID'), 'RunningOrder.start_time': ('roCreate', 'roEdStart'),
    'Story.start_time': ('mosPayload', 'StoryStarted'), 'Story.end_time': ('mosPayload', 'StoryEnded'),
    'Story.duration': ('mosPayload', 'StoryDuration'),
}
SIMPLE_GETTERS = {'Story.id', 'Story.slug', 'Item.id', 'Item.slug', 'Item.type', 'Item.object_id', 'Item.mos_id'}
LISTINGS = ['RunningOrder.stories', 'RunningOrder.script', 'RunningOrder.body', 'Story.items', 'Story.script', 'Story.body']
ORDER_BREAKERS = ('sorted', 'reversed', 'set', 'sort', 'reverse', 'frozenset', 'dict.values')


STALE_TEXT = 'no property getter of a running-order / message object memoises document-derived values on the object (merges change the document afterwards)'


def stale_cache(res: CheckResult, repo: str, *, merges=False, jobs=(), funcs=None):
    """Adds STALE-CACHE obligations/findings from the requested engine results."""
    res.rules['STALE-CACHE'] = STALE_TEXT
    found = []
    if merges:
        for cname, r in merge_results(repo).items():
            if r.get('ok'):
                found += [f for f in r['findings'] if f['rule'] == 'STALE-CACHE']
    if jobs:
        for r in null_results(repo, jobs):
            if r.get('ok'):
                found += [f for f in r['findings'] if f['rule'] == 'STALE-CACHE']
    if funcs is not None:
        found = [f for f in found if funcs(f['func'])]
    res.add('STALE-CACHE', 'getters', 'property getters evaluated by the analysed slices', True)
    for f in found:
        res.add('STALE-CACHE', f['func'], f['construct'], False, f['detail'], f['file'], f['line'], f['witness'])


def null_one(res, repo, kind, name=None):
    out = [r for r in collect_null(res, repo, (kind,)) if name is None or r['name'] == name]
    if not out:
        res.error(f'analysis job {kind}:{name or "*"} produced no result')
    return out


def order_pipe(res: CheckResult, acc: dict, names):
    for name in names:
        info = acc['listings'].get(name)
        if info is None:
            res.error(f'anchor vanished or not a list: listing accessor {name}')
            continue
        bad = [s for s in info['stages'] if s in ORDER_BREAKERS]
        ok = info['ordered'] and not bad
        res.add('ORDER-PIPE', name, 'pipeline ' + ' -> '.join(x for x in info['stages'] if not x.startswith('map:'))[:160], ok,
                '' if ok else f'the listing is not an order-preserving pipeline over the document (stages {info["stages"]})')


def prop_C15(repo, tier):
    res = CheckResult('C15', tier)
    res.rules = {'NO-BUILTIN-ESCAPE': RULES['NO-BUILTIN-ESCAPE'],
                 'ORDER-PIPE': 'each listing is findall/child iteration -> comprehension/chain -> list with no order-destroying stage',
                 'READS-OWN-TAG': 'each id/slug/metadata getter reads the tag the documentation assigns to it (and the simple getters read nothing else)'}
    accs = null_one(res, repo, 'accessors')
    if accs:
        acc = accs[0]
        for entry in acc['checked']:
            res.add('NO-BUILTIN-ESCAPE', entry, 'all presence combinations of optional tags', True)
        for f in acc['findings']:
            res.add(f['rule'], f['func'], f['construct'], False, f['detail'], f['file'], f['line'], f['witness'])
        res.rules['STALE-CACHE'] = STALE_TEXT
        res.add('STALE-CACHE', 'getters', 'property getters evaluated by the analysed slices', True)
        res.rules['ZERO-VS-NONE'] = ('no accessor tests the truth value of something that is None when the document lacks it and a number when it has it '
                                     '(a duration or offset of 0 is data and must not be treated as missing)')
        res.add('ZERO-VS-NONE', 'accessors', 'conditions on optional numbers in the analysed slices', True)
        order_pipe(res, acc, LISTINGS)
        for entry, (ptag, tag) in READS_OWN_TAG.items():
            reads = [tuple(x) for x in acc['reads'].get(entry, [])]
            if entry not in acc['checked']:
                res.error(f'anchor vanished: accessor {entry}')
                continue
            ok = (ptag, tag, 'direct') in reads
            detail = '' if ok else f'{entry} never reads <{tag}> under <{ptag}>; it reads {reads}'
            if ok and entry in SIMPLE_GETTERS:
                extra = [r for r in reads if r != (ptag, tag, 'direct')]
                if extra:
                    ok, detail = False, f'{entry} also depends on {extra}'
            res.add('READS-OWN-TAG', entry, f'reads <{ptag}>/<{tag}>', ok, detail)
        res.extra['functions_analysed'] = len(acc['functions'])
    from . import rules_shape as _rsd
    _rsd.no_shared_memo(res, program(repo))
    res.floors = {'NO-BUILTIN-ESCAPE': 25, 'ORDER-PIPE': 6, 'READS-OWN-TAG': 14}
    res.explanation = (
        'Static nullness/exception-flow analysis of every public read accessor of RunningOrder, Story and Item (and __str__/__repr__/'
        'inspect) over a symbolic reachable running order in which every optional tag may be present or absent (the interpreter forks '
        'on each optional find) and storyID/itemID are present: no exceptional exit exists. Listings are order-preserving pipelines '
        'over the document (ORDER-PIPE) and each getter reads its documented tag (READS-OWN-TAG). NOT decided: that returned values '
        'equal the XML for every document (runtime equality).')
    res.assumptions = ASSUME + ['present optional value tags (StoryDuration, TextTime, roEdStart, ...) carry well-formed text']
    res.trusted_base = TRUSTED
    return res


def prop_C17(repo, tier):
    res = CheckResult('C17', tier)
    res.rules = {'ORDER-PIPE': 'script/body are order-preserving pipelines over the story children / the stories',
                 'BODY-MAP': 'body keeps exactly the p and item children: items as Item objects, paragraphs as text with None mapped to the empty string',
                 'NOTE-TABLE': 'decision table of the script filter over the finite string abstraction equals: kept iff non-blank and not wrapped in () or <>; kept value is the stripped text'}
    accs = null_one(res, repo, 'accessors')
    if accs:
        acc = accs[0]
        order_pipe(res, acc, ['Story.script', 'Story.body', 'RunningOrder.script', 'RunningOrder.body'])
        body = acc['listings'].get('Story.body')
        if body:
            elems = body['elements']
            has_item = any(e.startswith('Item(') for e in elems)
            has_text = any(e.endswith('.text') for e in elems)
            has_empty = "''" in elems
            no_none = not any(e.startswith('None') for e in elems)
            ok = has_item and has_text and has_empty and no_none
            res.add('BODY-MAP', 'Story.body', 'element kinds of the body listing', ok,
                    '' if ok else f'body elements are {elems}: expected Item objects, paragraph text and the empty string, never None')
            kinds = lambda es: {('Item' if e.startswith('Item(') else 'text' if e.endswith('.text') else 'stripped text' if e.endswith('.text.strip()') else e) for e in es}   # noqa: E731
            ro_body = acc['listings'].get('RunningOrder.body', {}).get('elements', [])
            res.add('BODY-MAP', 'RunningOrder.body', 'concatenation of the stories\' bodies', kinds(ro_body) == kinds(elems),
                    '' if kinds(ro_body) == kinds(elems) else f'running-order body elements {ro_body} differ from story body elements {elems}')
            ro_script = acc['listings'].get('RunningOrder.script', {}).get('elements', [])
            st_script = acc['listings'].get('Story.script', {}).get('elements', [])
            res.add('BODY-MAP', 'RunningOrder.script', 'concatenation of the stories\' scripts', kinds(ro_script) == kinds(st_script),
                    '' if kinds(ro_script) == kinds(st_script) else f'{ro_script} vs {st_script}')
        # SAME-STORIES: script/body of a running order (and of every subclass, which reads another base tag) run over the
        # very story elements that .stories lists: the direct `story` children of the object's own base tag
        res.rules['SAME-STORIES'] = ('RunningOrder.script/body (also as inherited by subclasses) are computed from the story children of the '
                                     "object's own base tag, the same source as .stories")
        for entry, info in sorted(acc['listings'].items()):
            cls_, _, attr = entry.partition('.')
            if attr not in ('script', 'body') or cls_ in ('Story', 'Item'):
                continue
            ref = acc['listings'].get(f'{cls_}.stories', {})
            want = [e for e in ref.get('elements', []) if e.startswith('Story(')]
            inner = want[0][len('Story('):-1] if want else ''
            derived = [e for e in info['elements'] if e != "''"]
            ok = bool(inner) and bool(derived) and all(inner in e for e in derived)
            detail = '' if ok else f'{entry} elements {info["elements"]} are not (all) taken from {inner or "the stories"}, the elements .stories lists'
            res.add('SAME-STORIES', entry, 'same story elements as .stories', ok, detail)
        for f in acc['findings']:
            if f['func'].split('.')[-1] in ('script', 'body', '_is_technical_note', '_get_tag_text') and f['rule'] != 'STALE-CACHE':
                res.add(f['rule'], f['func'], f['construct'], False, f['detail'], f['file'], f['line'], f['witness'])
    for nt in null_one(res, repo, 'notetable'):
        for row in nt['rows']:
            got = [tuple(x) for x in row['got']]
            if any(g[0] == 'unrecognised' for g in got):
                res.error(f'NOTE-TABLE: text {row["text"]!r} is processed by a string operation outside the finite abstraction: {got}')
                continue
            ok = got == [('kept', row['expected'])]
            res.add('NOTE-TABLE', 'Story.script', f'text={row["text"]!r}', ok,
                    '' if ok else f'script yields {got} for paragraph text {row["text"]!r}; the specification says {row["expected"]!r}')
    stale_cache(res, repo, jobs=('accessors',), funcs=lambda f: f.split('.')[-1] in ('script', 'body', 'stories', 'items', 'base_tag'))
    from . import rules_shape as _rsd
    _rsd.no_shared_memo(res, program(repo))
    res.floors = {'ORDER-PIPE': 4, 'BODY-MAP': 3, 'NOTE-TABLE': 20, 'SAME-STORIES': 2}
    res.explanation = (
        'Static analysis: (1) ORDER-PIPE/BODY-MAP from the abstract evaluation of Story.body/script and RunningOrder.body/script; '
        '(2) NOTE-TABLE: the script filter together with _is_technical_note is evaluated by the abstract interpreter on one literal '
        'representative per class of the finite string abstraction the code can distinguish (None/empty/blank; first-char class x '
        'last-char class; surrounding whitespace), folding str.strip/startswith/endswith on literals; the resulting 21-row decision '
        'table must equal the specification. NOT decided: Unicode behaviour of str.strip; paragraphs with inline children.')
    res.assumptions = ['the script filter touches paragraph text only through truthiness, strip, startswith, endswith (otherwise the check reports analysis-broken)']
    res.trusted_base = TRUSTED
    return res


def prop_C20(repo, tier):
    res = CheckResult('C20', tier)
    res.rules = {'ENUM-PER-ID': RULES['ENUM-PER-ID'], 'ID-FALLBACK': RULES['ID-FALLBACK'], 'INSPECT-TOTAL': RULES['INSPECT-TOTAL'],
                 'ACCESSOR-ROLE': 'each accessor reads the container the MOS role table assigns (element_target vs element_source, first vs remaining IDs, carried elements wrapped as themselves)',
                 'ACCESSOR-TOTAL': 'no exposed accessor (or the .id of an exposed element) raises for a schema-shaped message',
                 'INSPECT-SOURCES': 'inspect() prints the id of every element of every source accessor of its class',
                 'INSPECT-LABEL': 'no two print statements of one inspect() print the same single ID under different labels'}
    results = collect_merge(res, repo)
    add_sites(res, results, 'explicit-id', 'ID-FALLBACK')
    add_findings(res, results, {'ENUM-PER-ID', 'ID-FALLBACK'})
    # StorySend.story exposes the converted story: the index typestate of the conversion decides whether its items come out in message order
    res.rules['CONVERT-ORDER'] = 'the roStorySend conversion behind StorySend.story keeps the carried paragraphs and items in message order (index typestate of the splice)'
    res.add('CONVERT-ORDER', 'StorySend._convert_story_send_to_story_tag', 'splice of the storyBody children', True)
    add_findings(res, results, IDX_RULES | {'SPLICE'}, want=lambda c, f: 'convert' in f['func'], as_rule=lambda f: 'CONVERT-ORDER')
    from . import schema as sch
    macc = {r['name']: r for r in null_one(res, repo, 'msgaccessors')}
    insp = {r['name']: r for r in null_one(res, repo, 'inspect')}
    for cname, spec in sch.ACCESSOR_ROLES.items():
        r = macc.get(cname)
        if r is None:
            res.error(f'anchor vanished: message class {cname}')
            continue
        for f in r['findings']:
            res.add(f['rule'], f['func'], f['construct'], False, f['detail'], f['file'], f['line'], f['witness'])
        for acc_name, steps in spec.items():
            got = r['accessors'].get(acc_name)
            if got is None:
                res.error(f'anchor vanished: accessor {cname}.{acc_name}')
                continue
            norm_ = lambda st_: [('element_source', 'first') if tuple(x) == ('element_source', 'each') else tuple(x) for x in st_]   # noqa: E731
            ids = [norm_(x) for x in got['ids']]
            ok = bool(ids) and all(x == list(steps) for x in ids) and got['ordered']
            res.add('ACCESSOR-ROLE', f'{cname}.{acc_name}', 'id provenance ' + ' / '.join(f'{t}:{s}' for t, s in steps), ok,
                    '' if ok else f'exposed ids come from {ids} (ordered={got["ordered"]}); the role table says {list(steps)}')
            plural = 'plural' in got['kind']
            res.add('ENUM-PER-ID', f'{cname}.{acc_name}', 'one element per ' + ('named ID / carried element' if plural else 'reference'), True)
        ir = insp.get(cname)
        if ir is None:
            res.error(f'anchor vanished: {cname}.inspect')
            continue
        res.add('INSPECT-TOTAL', f'{cname}.inspect', 'all exits of inspect()', True)
        for f in ir['findings']:
            res.add(f['rule'], f['func'], f['construct'], False, f['detail'], f['file'], f['line'], f['witness'])
        printed = [([tuple(x) for x in stp], p['construct']) for p in ir['prints'] for stp in p['id_steps']]
        sources = (set(spec) & sch.SOURCE_ACCESSORS) | sch.SOURCE_ACCESSORS_BY_CLASS.get(cname, set())
        for acc_name in sorted(sources & set(spec)):
            want = list(spec[acc_name])
            ok = any([('element_source', 'first') if x == ('element_source', 'each') else x for x in stp] == want for stp, _ in printed)
            res.add('INSPECT-SOURCES', f'{cname}.inspect', f'mentions the ids of {acc_name}', ok,
                    '' if ok else f'inspect() never prints an id with provenance {want} (source accessor {acc_name})')
        single = {}
        for stp, cons in printed:
            if all(sel != 'each' and not sel.startswith('each') for _, sel in stp):
                single.setdefault(tuple(stp), set()).add(cons)
        dup = {k: v for k, v in single.items() if len(v) > 1}
        res.add('INSPECT-LABEL', f'{cname}.inspect', 'distinct labels print distinct ids', not dup,
                '' if not dup else '; '.join(f'{sorted(v)} all print {list(k)}' for k, v in dup.items()))
    for cname in ('RunningOrderReplace', 'RunningOrderEnd', 'MetaDataReplace', 'ReadyToAir', 'RunningOrder'):
        ir = insp.get(cname)
        if ir is None:
            res.error(f'anchor vanished: {cname}.inspect')
            continue
        res.add('INSPECT-TOTAL', f'{cname}.inspect', 'all exits of inspect()', True)
        for f in ir['findings']:
            res.add(f['rule'], f['func'], f['construct'], False, f['detail'], f['file'], f['line'], f['witness'])
    stale_cache(res, repo, merges=True, jobs=('msgaccessors', 'inspect'))
    from . import rules_shape as _rsd
    _rsd.no_shared_memo(res, program(repo))
    res.floors = {'ACCESSOR-ROLE': 35, 'INSPECT-TOTAL': 20, 'INSPECT-SOURCES': 12, 'INSPECT-LABEL': 15}
    res.explanation = (
        'Static analysis of every message class: the abstract interpreter evaluates each public accessor on a symbolic schema-shaped '
        'message and reads off the provenance of the ids it exposes (container, first/each/n-th, slice); this must equal the MOS role '
        'table (ACCESSOR-ROLE), enumerate per ID (ENUM-PER-ID), never substitute another ID for a blank one (ID-FALLBACK); inspect() has '
        'no exceptional exit with element texts possibly None (INSPECT-TOTAL), prints every source accessor\'s ids (INSPECT-SOURCES) and '
        'does not print one ID under two labels (INSPECT-LABEL). NOT decided: the exact printed text / value equality with the message.')
    res.assumptions = ASSUME
    res.trusted_base = TRUSTED
    return res


PROPS.update({'C15': prop_C15, 'C17': prop_C17, 'C20': prop_C20})
TECHNIQUE.update({
    'C15': 'static analysis: nullness / exception-flow abstract interpretation of the accessors (nullflow)',
    'C17': 'static analysis: pipeline shape + finite decision table by literal folding (nullflow/predtable)',
    'C20': 'static analysis: provenance of exposed ids vs. role table; exception flow of inspect() (nullflow)',
})


def prop_C08(repo, tier):
    from . import rules_shape, schema as sch
    res = CheckResult('C08', tier)
    res.rules = {k: RULES[k] for k in ('CLASSIFY-TOTAL', 'NO-ELEM-BOOL')}
    res.rules['READS-ONLY-MESSAGE-ELEMENT'] = 'classification reads only: presence of a table tag under the root, the operation attribute, presence of itemID under element_target/element_source - by direct-child lookups'
    res.rules['CLASS-SET'] = 'the classes classification can return are exactly the documented concrete classes'
    prog = program(repo)
    allowed_reads = {('#root', t, 'direct') for t in sch.DOCUMENTED_TAGS} | {('roElementAction', 'element_target', 'direct'),
                                                                            ('roElementAction', 'element_source', 'direct'),
                                                                            ('element_target', 'itemID', 'direct'), ('element_source', 'itemID', 'direct')}
    expected = (set(sch.DOCUMENTED_TAGS.values()) - {'ElementAction'}) | set(sch.EA_TABLE.values())
    for r in null_one(res, repo, 'classify'):
        entry = 'MosFile.' + r['name']
        res.add('CLASSIFY-TOTAL', entry, 'classification of any well-formed document', True)
        for f in r['findings']:
            res.add(f['rule'], f['func'], f['construct'], False, f['detail'], f['file'], f['line'], f['witness'])
        reads = {tuple(x) for x in r['reads'].get(entry, [])}
        extra = sorted(reads - allowed_reads)
        res.add('READS-ONLY-MESSAGE-ELEMENT', entry, 'elements consulted while classifying', not extra,
                '' if not extra else f'classification also depends on {extra}')
        got = set(r.get('classes', []))
        res.add('CLASS-SET', entry, 'set of classes returned', got == expected,
                '' if got == expected else f'missing {sorted(expected - got)}, unexpected {sorted(got - expected)}')
    elem_bool = [f for r in collect_null(res, repo, ('inspect', 'accessors', 'msgaccessors')) for f in r['findings'] if f['rule'] == 'NO-ELEM-BOOL']
    for cname, r in collect_merge(res, repo).items():
        elem_bool += [f for f in r['findings'] if f['rule'] == 'NO-ELEM-BOOL']
    for f in elem_bool:
        res.add('NO-ELEM-BOOL', f['func'], f['construct'], False, f['detail'], f['file'], f['line'], f['witness'])
    res.add('NO-ELEM-BOOL', 'package', 'every condition evaluated on an Element value in the analysed slices', not elem_bool)
    rules_shape.tag_table(res, prog, sch)
    rules_shape.no_shared_memo(res, prog)
    rules_shape.ea_table(res, prog, sch)
    rules_shape.ctor_siblings(res, prog, classify=null_one(res, repo, 'classify'))
    res.floors = {'CLASSIFY-TOTAL': 3, 'TAG-TABLE': 16, 'EA-TABLE': 10, 'CTOR-SIBLINGS': 2}
    res.explanation = (
        'Static analysis: (1) CLASSIFY-TOTAL - exception-flow interpretation of from_string/from_file/from_s3 -> _classify -> '
        'ElementAction._classify -> constructor over every presence combination of children (no schema assumption): only MosInvalidXML / '
        'UnknownMosFileType (and OSError for a path) can escape; (2) NO-ELEM-BOOL - no Element in a boolean context (child-count '
        'dependence and DeprecationWarning under -W error); (3) READS-ONLY-MESSAGE-ELEMENT and CLASS-SET from the same interpretation; '
        '(4) TAG-TABLE / EA-TABLE - the two dispatch tables equal the documented tables and agree with each class\'s base_tag_name; '
        '(5) CTOR-SIBLINGS. NOT decided: ElementTree\'s str/bytes equivalence.')
    res.assumptions = ['ElementTree.fromstring/parse raise only ParseError (and OSError for parse(path)) and accept str and bytes alike']
    res.trusted_base = TRUSTED
    return res


def prop_C07(repo, tier):
    from . import rules_shape
    res = CheckResult('C07', tier)
    res.rules = {'GUARD-DOM': 'when the completion marker is present RunningOrder.__add__ raises MosCompletedMergeError with no effect at all, for every message class',
                 'MARKER-AGREE': 'the marker RunningOrderEnd.merge writes under the root is the one __add__ and RunningOrder.completed read; after merging a roDelete completed is True',
                 'NEVER-COMPLETED': 'after any other merge RunningOrder.completed is still False',
                 'END-FRAME': 'RunningOrderEnd.merge only appends the marker (holding the roDelete) to the root: nothing under the running-order element is touched',
                 'DIRECT-CHILD': 'classification probes direct children only, so the roDelete nested in the marker cannot reclassify a written-out completed running order'}
    prog = program(repo)
    results = collect_merge(res, repo)
    guard = sorted({t for r in results.values() for t in r.get('guard_tags', [])})
    if len(guard) != 1:
        res.error(f'GUARD-DOM: expected exactly one completion-marker probe on the root in RunningOrder.__add__, found {guard}')
    marker = guard[0] if guard else None
    for cname, r in results.items():
        if r.get('partial'):
            continue              # the analysis of this class broke down (reported as an error): no outcome set to judge
        present = [o for o in r['outcomes'] if o.get('guard_present')]
        ok = bool(present) and all(o['result'] == 'raise MosCompletedMergeError' and not o['effects'] and not o['mutated'] for o in present)
        res.add('GUARD-DOM', 'RunningOrder.__add__', f'completed running order + {cname}', ok,
                '' if ok else f'with the marker present the outcomes are {[(o["result"], o["effects"]) for o in present]}')
        ref = r.get('refusal')
        if ref is not None:
            if any(o['result'] == 'analysis-error' for o in ref):
                res.error(f'GUARD-DOM: the refusal of a {cname} whose document is arbitrary could not be interpreted: {ref[0].get("msg")}')
            else:
                bad = [o for o in ref if o['result'] != 'raise MosCompletedMergeError' or o.get('mutated')]
                b = bad[0] if bad else {}
                res.add('GUARD-DOM', 'RunningOrder.__add__', f'completed running order + {cname} about whose document nothing is assumed', bool(ref) and not bad,
                        '' if ref and not bad else (f'the refusal depends on the message: {b.get("result")} ({b.get("msg", "")}) from {b.get("text", "?")} in {b.get("func", "?")} '
                                                    f'when the message lacks what that expression reads' if bad else 'no outcome'),
                        b.get('file') or '', b.get('line') or 0)
        absent_ret = [o for o in r['outcomes'] if not o.get('guard_present') and o['result'] == 'return']
        if cname == 'RunningOrderEnd':
            ok = bool(absent_ret) and all(o.get('completed_after') == ['True'] for o in absent_ret)
            res.add('MARKER-AGREE', 'RunningOrderEnd.merge', 'RunningOrder.completed after merging a roDelete', ok,
                    '' if ok else f'completed evaluates to {[o.get("completed_after") for o in absent_ret]} after the merge')
            ops = {tuple(map(tuple, o['rootops'])) for o in absent_ret}
            ok = ops == {(('append', marker, 'NEW'),)}
            res.add('END-FRAME', 'RunningOrderEnd.merge', 'operations on the root', ok, '' if ok else f'root operations: {sorted(ops)}')
            # "records the roDelete": the record holds a deep copy of the message's own roDelete element, nothing re-built
            contents = {tuple(map(tuple, o.get('marker_content', []))) for o in absent_ret}
            okc = bool(contents) and all(len(c) == 1 and c[0][0] == 'COPY' and c[0][2] is True for c in contents)
            res.add('MARKER-AGREE', 'RunningOrderEnd.merge', 'the record holds a deep copy of the message\'s roDelete element', okc,
                    '' if okc else f'the completion record contains {sorted(contents)} (provenance, tag, deep copy of the message element): not the roDelete that was received')
        else:
            ok = all(o.get('completed_after') == ['False'] for o in absent_ret)
            res.add('NEVER-COMPLETED', f'{cname}.merge', 'RunningOrder.completed after the merge', ok,
                    '' if ok else f'completed evaluates to {[o.get("completed_after") for o in absent_ret]}')
    add_findings(res, {c: r for c, r in results.items() if c == 'RunningOrderEnd'}, {'FRAME'}, as_rule=lambda f: 'END-FRAME')
    res.rules['NO-HIDDEN-STATE'] = 'no merge records its effect on the Python objects instead of the document (it would not survive a round trip)'
    res.add('NO-HIDDEN-STATE', 'merges', 'attribute stores on MOS objects during a merge', True)
    add_findings(res, results, {'NO-HIDDEN-STATE'})
    for r in null_one(res, repo, 'classify'):
        entry = 'MosFile.' + r['name']
        bad = [x for x in r['reads'].get(entry, []) if x[2] != 'direct']
        res.add('DIRECT-CHILD', entry, 'child lookups made while classifying', not bad, '' if not bad else f'descendant / path searches: {bad}')
    rules_shape.no_bypass(res, prog)
    rules_shape.no_shared_memo(res, prog)
    if marker:
        rules_shape.marker_writers(res, prog, marker)
        # survives a round trip: the answer of .completed must come from the document a fresh object is built over
        from . import rules_null as _rn
        res.rules['COMPLETED-FROM-DOCUMENT'] = ('RunningOrder.completed and MosCollection.completed, evaluated on objects freshly constructed over a document, are True '
                                                'exactly when that document carries the completion marker (no state kept on objects, no inference from the reader list)')
        try:
            cfd = _rn.completed_from_document(prog, marker)
            for present, (vals, cvals) in cfd.items():
                want = [repr(present)]
                res.add('COMPLETED-FROM-DOCUMENT', 'RunningOrder.completed', f'fresh object, marker {"present" if present else "absent"}', vals == want,
                        '' if vals == want else f'completed evaluates to {vals} on a running order just read from a document {"with" if present else "without"} the marker')
                if cvals:
                    res.add('COMPLETED-FROM-DOCUMENT', 'MosCollection.completed', f'collection over a running order whose document has the marker {"present" if present else "absent"}',
                            cvals == want, '' if cvals == want else f'the collection reports completed={cvals} while its running order document {"has" if present else "does not have"} the marker')
        except _rn.AnalysisError as e:
            res.error(f'COMPLETED-FROM-DOCUMENT: {e}')
    rules_shape.detect_completed(res, prog)
    stale_cache(res, repo, merges=True, jobs=('accessors',), funcs=lambda f: f.endswith('.completed') or f.endswith('.xml'))
    res.floors = {'GUARD-DOM': 20, 'NEVER-COMPLETED': 19, 'MARKER-AGREE': 1, 'END-FRAME': 1, 'NO-BYPASS': 1}
    res.explanation = (
        'Static analysis: RunningOrder.__add__ is interpreted for each of the 24 message classes with the completion marker present '
        'and absent: marker present => MosCompletedMergeError and an empty effect trace (GUARD-DOM); the post-state of a roDelete merge '
        'makes RunningOrder.completed evaluate to True and every other merge leaves it False (MARKER-AGREE / NEVER-COMPLETED, decided by '
        'evaluating the property on the abstract post-state); RunningOrderEnd only appends the marker under the root (END-FRAME); merge '
        'is never called except through __add__ (NO-BYPASS); the marker literal has one writer (MARKER-WRITER); classification looks at '
        'direct children only (DIRECT-CHILD); the CLI prints (completed) on the completed branch. NOT decided: that ElementTree\'s '
        'write/parse round trip preserves the marker (library behaviour).')
    res.assumptions = ASSUME
    res.trusted_base = TRUSTED
    return res


def prop_C14(repo, tier):
    from . import rules_shape
    res = CheckResult('C14', tier)
    res.rules = {'ROOT-WRITERS': 'the only effects on the root are: roReplace removes the roCreate and inserts its re-tagged deep copy at the same slot; roDelete appends one marker',
                 'ENVELOPE-UNTOUCHED': 'no merge mutates or stores into messageID / mosID / ncsID (root children other than the running-order element)',
                 'SERIALIZER': 'str() of a MOS object is ElementTree.tostring(self.xml, encoding="unicode") and nothing else in the package builds XML text'}
    prog = program(repo)
    results = collect_merge(res, repo)
    for cname, r in results.items():
        if r.get('partial'):
            continue              # the analysis of this class broke down (reported as an error): no outcome set to judge
        kind = schema.ROLES[cname][0]
        ops = {tuple(map(tuple, o['rootops'])) for o in r['outcomes'] if o['result'] == 'return' and not o.get('guard_present')}
        if kind == 'ROREPLACE':
            ok = ops == {(('remove', 'roCreate', 'RO'), ('insert', 'roCreate', 'COPY'))}
        elif kind == 'END':
            ok = len(ops) == 1 and all(len(x) == 1 and x[0][0] == 'append' and x[0][2] == 'NEW' for x in ops)
        else:
            ok = ops <= {()}
        res.add('ROOT-WRITERS', f'{cname}.merge', 'operations on the root element', ok, '' if ok else f'root operations on normal return: {sorted(ops)}')
        again = [o for o in r['outcomes'] if o.get('guard_present') and (o['rootops'] or o['mutated'])]
        res.add('ROOT-WRITERS', f'{cname}.merge', 'no root operation once a completion record exists (at most one record)', not again,
                '' if not again else f'on an already completed running order the merge still performs {[o["rootops"] for o in again]}')
        res.add('ENVELOPE-UNTOUCHED', f'{cname}.merge', 'effects on envelope children', True)
    add_findings(res, results, {'FRAME', 'IDX-DOMAIN', 'IDX-FRESH'}, want=lambda c, f: schema.ROLES[c][0] in ('ROREPLACE', 'END'),
                 as_rule=lambda f: 'ROOT-WRITERS')
    # an exception between the removal and the re-insertion at the root leaves the envelope without its running-order element
    add_findings(res, results, {'VALIDATE-BEFORE-MUTATE'}, want=lambda c, f: schema.ROLES[c][0] in ('ROREPLACE', 'END'),
                 as_rule=lambda f: 'ROOT-WRITERS')
    add_findings(res, results, {'FRAME'}, want=lambda c, f: 'ro.xml)' in f['detail'] or "parent=ro.xml" in f['detail'], as_rule=lambda f: 'ENVELOPE-UNTOUCHED')
    res.rules['NO-HIDDEN-STATE'] = 'no merge records its effect on the Python objects instead of the document (it would not be in the serialisation)'
    res.add('NO-HIDDEN-STATE', 'merges', 'attribute stores on MOS objects during a merge', True)
    add_findings(res, collect_merge(res, repo), {'NO-HIDDEN-STATE'})
    guard_ = sorted({t for r in collect_merge(res, repo).values() for t in r.get('guard_tags', [])})
    if len(guard_) != 1:
        # "at most one completion record" and "the flag survives serialisation" are judged against the marker the guard probes
        res.error(f'ROOT-WRITERS: expected exactly one completion-marker probe on the root in RunningOrder.__add__, found {guard_} (idiom not recognised)')
    if len(guard_) == 1:
        from . import rules_null as _rn
        res.rules['COMPLETED-FROM-DOCUMENT'] = ('RunningOrder.completed / MosCollection.completed evaluated on objects freshly constructed over a document are True exactly '
                                                'when that document carries the completion marker: the flag survives serialisation')
        try:
            for present, (vals, cvals) in _rn.completed_from_document(prog, guard_[0]).items():
                want = [repr(present)]
                res.add('COMPLETED-FROM-DOCUMENT', 'RunningOrder.completed', f'fresh object, marker {"present" if present else "absent"}', vals == want,
                        '' if vals == want else f'completed evaluates to {vals} on a running order just read from a document {"with" if present else "without"} the marker')
                if cvals:
                    res.add('COMPLETED-FROM-DOCUMENT', 'MosCollection.completed', f'collection, marker {"present" if present else "absent"}', cvals == want,
                            '' if cvals == want else f'the collection reports completed={cvals}')
        except _rn.AnalysisError as e:
            res.error(f'COMPLETED-FROM-DOCUMENT: {e}')
    rules_shape.serializer(res, prog)
    rules_shape.no_shared_memo(res, prog)
    rules_shape.no_bypass(res, prog)          # "at most one completion record" holds because every merge goes through the guard in __add__
    # the reading side of the round trip: a node kind that one constructor keeps (comments, processing instructions) and the
    # constructor used for reading back drops cannot read back identically, so every constructor parses the default way
    res.rules['SAME-PARSER'] = ('every MosFile constructor, interpreted, reaches its parse primitive without parser options: what from_file / from_s3 put into a '
                                'running order is what from_string finds again in its serialisation')
    for r in null_one(res, repo, 'classify'):
        ps = [tuple(x) for v in (r.get('parses') or {}).values() for x in v]
        if not ps:
            continue
        opts = sorted({k for _, _, kw in ps for k in kw})
        res.add('SAME-PARSER', 'MosFile.' + r['name'], 'options passed to the ElementTree parse primitive', not opts,
                '' if not opts else f'MosFile.{r["name"]} passes {opts} to the parser: the tree it builds is not the one the other constructors build from the same text')
    stale_cache(res, repo, merges=True, jobs=('accessors',), funcs=lambda f: f.split('.')[0] in ('MosFile', 'RunningOrder'))
    res.floors = {'ROOT-WRITERS': 20, 'SERIALIZER': 2, 'SAME-PARSER': 3}
    res.explanation = (
        'ENVELOPE CLAUSE ONLY. Decided statically: which effects any merge can have on the root element (exactly one running-order '
        'element: roReplace = one out / re-tagged deep copy in at the same slot; at most one completion record: roDelete appends one '
        'marker and the completion guard of C07 forbids later merges), that messageID/mosID/ncsID are never operands of an effect, and '
        'that the only serializer is ElementTree.tostring(self.xml, encoding="unicode"). NOT decided: sentence 1 of the property - that '
        'the serialisation is well-formed and reads back to an identical running order with special characters intact - is behaviour of '
        'ElementTree.tostring/fromstring on runtime strings and is outside this technique.')
    res.assumptions = ASSUME
    res.trusted_base = TRUSTED
    return res


PROPS.update({'C08': prop_C08, 'C07': prop_C07, 'C14': prop_C14})
TECHNIQUE.update({
    'C08': 'static analysis: exception-flow interpretation of classification + table agreement checks (nullflow/tables)',
    'C07': 'static analysis: interpretation of the completion guard for all message classes + who-may-call/who-may-write rules',
    'C14': 'static analysis: effect analysis of root-level writers + single-serializer rule (envelope clause only)',
})


def prop_C09(repo, tier):
    from . import rules_shape
    from .analysis import coll_results
    res = CheckResult('C09', tier)
    res.rules = {
        'FOLD-LOOP': 'merge() iterates the collection\'s own reader list, in order, without re-ordering, slicing or filtering',
        'NO-EARLY-EXIT': 'the merge loop has no break/return: every message is applied',
        'FRESH-READ': 'the object merged in an iteration was restored in that iteration (never a cached or reused object); MosReader.mos_object stores nothing',
        'APPLY-VIA-ADD': 'each message is applied through RunningOrder.__add__ (+=), so the completion guard covers everything after the roDelete',
        'HANDLER-COVERS': 'the step is inside a try whose handler covers MosMergeError',
        'STRICT-RERAISE': 'with strict=True the first MosMergeError (incl. MosCompletedMergeError) propagates unchanged, no warning is emitted, and nothing else can escape',
        'ONE-WARNING': 'with strict=False every failing message is skipped with exactly one MosMergeNonStrictWarning and the loop continues; no exception escapes',
        'DEFAULT-STRICT': 'strict is keyword-only and defaults to True',
    }
    prog = program(repo)
    for r in coll_results(repo):
        if not r['ok']:
            res.error(r['error'])
            continue
        strict = r['strict']
        for note, n in r['notes'].items():
            res.extra.setdefault('imprecision_notes', {})[note] = n
        for func, cons in r['sites'].get('loop', []):
            res.add('FOLD-LOOP', func, cons[:120], True)
            res.add('NO-EARLY-EXIT', func, cons[:120], True)
        for func, cons in r['sites'].get('restore', []):
            res.add('FRESH-READ', func, cons, True)
        for func, cons in r['sites'].get('dispatch', []):
            res.add('APPLY-VIA-ADD', func, cons, True)
        for f in r['findings']:
            res.add(f['rule'], f['func'], f['construct'][:160], False, f['detail'], f['file'], f['line'], f['witness'])
        outs = r['outcomes']
        if strict:
            raises = [o for o in outs if o['result'].startswith('raise')]
            ok = bool(raises) and all(o['result'] in ('raise MosMergeError', 'raise MosCompletedMergeError') and not o['warned'] for o in raises) \
                and all(not o['warned'] for o in outs)
            res.add('STRICT-RERAISE', 'MosCollection.merge', 'outcomes with strict=True', ok,
                    '' if ok else f'strict outcomes: {sorted({(o["result"], o["warned"]) for o in outs})}')
            ok2 = any(o['result'] == 'return' and o['merged'] >= 1 for o in outs) and all(o.get('ro_kept', True) for o in outs)
            res.add('FOLD-LOOP', 'MosCollection.merge', 'the running order after the loop is the one the steps returned', ok2,
                    '' if ok2 else 'merge() does not end with the folded running order in self._ro')
        else:
            bad = [o for o in outs if o['result'].startswith('raise') or o['pending']]
            ok = not bad and any(o['warned'] for o in outs)
            res.add('ONE-WARNING', 'MosCollection.merge', 'outcomes with strict=False', ok,
                    '' if ok else f'non-strict outcomes: {sorted({(o["result"], o["pending"], o["warned"]) for o in outs})}')
            after = [o for o in outs if 'merge-failed' in o['events'] and o['events'].index('merge-failed') < len(o['events']) - 2]
            res.add('ONE-WARNING', 'MosCollection.merge', 'messages after a failed one are still applied', bool(after),
                    '' if after else 'no path applies a message after a failed one')
        sig = r['signature']
        ok = sig.get('strict') == 'True' and 'strict' not in r['positional']
        res.add('DEFAULT-STRICT', 'MosCollection.merge', 'def merge(self, *, strict=True)', ok, '' if ok else f'signature: positional={r["positional"]} keyword-only={sig}')
    rules_shape.handler_covers(res, prog)
    rules_shape.fresh_read(res, prog)
    # "in ascending message-ID order": the list merge() folds is the one the constructors sorted
    rules_shape.sorted_ctors(res, prog)
    from . import rules_pred
    tmp = CheckResult('C09', tier)
    rules_pred.accept_table(tmp, prog)
    res.rules['POST-STATE'] = 'the readers that merge() folds are all messages of the collection except the roCreate (which is the initial running order)'
    rejected = [o for o in tmp.obligations if o.rule == 'ACCEPT-TABLE' and o.verdict == 'VIOLATED' and 'specification accept' in o.detail]
    if rejected and any('no accepting row' in e for e in tmp.errors):
        # a collection the specification accepts cannot even be constructed: its messages are never folded
        o = rejected[0]
        res.add('POST-STATE', o.where, 'collections the specification accepts are constructed', False,
                f'{o.construct}: {o.detail}', o.file, o.line)
    else:
        for e in tmp.errors:
            res.error(e)
    res.obligations.extend(o for o in tmp.obligations if o.rule == 'POST-STATE')
    from . import rules_shape as _rsd
    _rsd.no_shared_memo(res, program(repo))
    res.floors = {'FOLD-LOOP': 2, 'FRESH-READ': 2, 'APPLY-VIA-ADD': 1, 'STRICT-RERAISE': 1, 'ONE-WARNING': 2, 'POST-STATE': 2}
    res.explanation = (
        'Static analysis: MosCollection.merge is interpreted (strict=True and strict=False) over a symbolic collection whose reader list '
        'has unknown length and whose restored messages are opaque objects that either merge or raise MosMergeError; the real '
        'RunningOrder.__add__ (with its completion guard) and MosReader.mos_object are interpreted. The loop is iterated to a fix-point, '
        'so "any number and placement of failing messages" is covered. Decided: the loop is the fold over the reader list in order with '
        'fresh objects applied through +=, strict re-raises the first merge error with no warning, non-strict downgrades each failure to '
        'exactly one MosMergeNonStrictWarning and continues. NOT decided: equality of serialisations with a hand fold (follows from the '
        'fold shape only because + is deterministic, which C13 supports).')
    res.assumptions = ['a message merge either returns the running order or raises MosMergeError (C12 decides that nothing else escapes)']
    res.trusted_base = TRUSTED
    return res


PROPS['C09'] = prop_C09
TECHNIQUE['C09'] = 'static analysis: abstract interpretation of the collection merge loop over a symbolic reader list (collectionflow)'


def prop_C10(repo, tier):
    from . import rules_shape
    res = CheckResult('C10', tier)
    prog = program(repo)
    rules_shape.sorted_ctors(res, prog)
    rules_shape.lt_numeric(res, prog)
    rules_shape.order_preserved(res, prog)
    rules_shape.collection_ctor_siblings(res, prog)
    from .analysis import coll_results
    for r in coll_results(repo):
        if not r['ok']:
            res.error(r['error'])
        else:
            for f in r['findings']:
                if f['rule'] == 'FOLD-LOOP':
                    res.add('ORDER-PRESERVED', f['func'], f['construct'][:160], False, f['detail'], f['file'], f['line'], f['witness'])
    from . import rules_shape as _rsd
    _rsd.no_shared_memo(res, program(repo))
    res.floors = {'SORTED-CTORS': 3, 'LT-NUMERIC': 4, 'ID-IS-INT': 3, 'ORDER-PRESERVED': 2}
    res.explanation = (
        'Static analysis of the premises of permutation invariance: each of the three collection constructors, interpreted over a symbolic '
        'list of sources, hands cls(...) the result of sorted() over all constructed readers with no key/reverse (SORTED-CTORS, CTOR-ARGS, sibling agreement); '
        'MosReader.__lt__ and MosFile.__lt__ compare message_id with < under @total_ordering (LT-NUMERIC); message_id flows through int() '
        'and is stored/returned unchanged by the reader (ID-IS-INT: 9 < 10 < 100); nothing between construction and the fold re-orders '
        'the list (ORDER-PRESERVED, also checked on the interpreted merge loop). NOT decided: equality of merged output (C09 + this).')
    res.assumptions = ['message IDs within one collection are distinct integers (sorted() is then a total order independent of input order)']
    res.trusted_base = TRUSTED
    return res


def prop_C11(repo, tier):
    from . import rules_pred
    res = CheckResult('C11', tier)
    prog = program(repo)
    rules_pred.no_assert(res, prog)
    rules_pred.accept_table(res, prog)
    # "unless incompleteness is allowed" is the caller's decision: every constructor hands its allow_incomplete on unchanged
    from . import rules_shape as _rs11
    tmp11 = CheckResult('C11', tier)
    _rs11.sorted_ctors(tmp11, prog)
    res.rules['CTOR-ARGS'] = 'each MosCollection.from_* (interpreted) forwards allow_incomplete to cls(...) unchanged'
    for e in tmp11.errors:
        res.error(e)
    res.obligations.extend(o for o in tmp11.obligations if o.rule == 'CTOR-ARGS' and 'allow_incomplete' in o.construct)
    res.floors = {'ACCEPT-TABLE': 60, 'POST-STATE': 2, 'NO-ASSERT': 1}
    res.explanation = (
        'Static analysis: MosCollection(readers, allow_incomplete) is run by the abstract interpreter on one exact representative reader list per point of '
        '{empty} + same_id x n_create{0,1,2,3} x n_delete{0,1,2,3} x n_roReplace{0,1} x allow_incomplete, in two orders (class objects, ro ids and list '
        'lengths are concrete, so every test folds; the message objects stay symbolic); the resulting truth table, including which exception '
        'leaves __init__, must equal the specification (ACCEPT-TABLE, with the empty list rejected by InvalidMosCollection rather than '
        'IndexError). NO-ASSERT: no assert statement anywhere in the package (python -O). POST-STATE: the accepted collection keeps the '
        'unique roCreate as running order and the order-preserving remainder as readers.')
    res.assumptions = ['MosReader.mos_type is the class object returned by classification (C18 READER-FIELDS)']
    res.trusted_base = TRUSTED[:1]
    return res


def prop_C18(repo, tier):
    from . import rules_shape
    res = CheckResult('C18', tier)
    prog = program(repo)
    rules_shape.ctor_siblings(res, prog, classify=null_one(res, repo, 'classify'))
    rules_shape.no_shared_memo(res, prog)
    rules_shape.sorted_ctors(res, prog)
    rules_shape.collection_ctor_siblings(res, prog)
    rules_shape.restore_pair(res, prog)
    rules_shape.fresh_read(res, prog)
    rules_shape.lt_numeric(res, prog)          # the order of a collection must not depend on where a message came from
    rules_shape.all_pages(res, prog)
    cls_sets = {}
    for r in null_one(res, repo, 'classify'):
        cls_sets[r['name']] = (tuple(r.get('classes', [])), tuple(sorted({x['result'] for x in r['returns'] if x['result'].startswith('raise')} - {'raise OSError'})))
    ok = len(set(cls_sets.values())) == 1 and len(cls_sets) == 3
    res.rules['SOURCE-AGREE'] = 'the interpreted classification outcomes (classes returned, library exceptions raised) are identical for from_file, from_string and from_s3'
    res.add('SOURCE-AGREE', 'MosFile.from_*', 'outcome sets of the three constructors', ok, '' if ok else f'outcomes differ: {cls_sets}')
    res.floors = {'CTOR-SIBLINGS': 2, 'RESTORE-PAIR': 3, 'READER-FIELDS': 8, 'ALL-PAGES': 5, 'FRESH-READ': 1}
    res.explanation = (
        'Static (structural + interpreted) analysis: the file and string constructors have the same shape and from_s3 delegates to '
        'from_string (CTOR-SIBLINGS); the interpreted classification outcomes agree for the three sources (SOURCE-AGREE); the three '
        'collection constructors, interpreted over a symbolic list of sources, share one pipeline (COLL-SIBLINGS/SORTED-CTORS/CTOR-ARGS); each reader restores with the same-named constructor '
        'of the classified class and exactly the original arguments (RESTORE-PAIR), records the message id / ro id / class it reports '
        '(READER-FIELDS) and re-creates the object on every access (FRESH-READ); the S3 listing, interpreted over a symbolic paginator, visits every page and key with the '
        'suffix as only filter (ALL-PAGES). NOT decided: ElementTree on bytes vs str; boto3 behaviour.')
    res.assumptions = ['boto3 paginator/Body API as used today; ElementTree.fromstring accepts bytes and str alike']
    res.trusted_base = TRUSTED[:1]
    return res


def prop_C19(repo, tier):
    from . import rules_shape
    res = CheckResult('C19', tier)
    prog = program(repo)
    raises = set()
    for r in null_one(res, repo, 'classify', 'from_file'):
        raises = {x['result'].split(' ', 1)[1] for x in r['returns'] if x['result'].startswith('raise')}
    if not raises:
        res.error('LOOP-CONTAIN: may-raise set of MosFile.from_file is empty (analysis problem)')
    insp = null_one(res, repo, 'inspect')
    inspect_ok = all(not [f for f in r['findings'] if f['rule'] == 'INSPECT-TOTAL'] for r in insp)
    from . import rules_cli
    from .front import AnalysisError as _AE
    try:
        rules_cli.cli_flow_rules(res, prog, raises, inspect_ok)
        rules_shape.cli_parser_flags(res, prog)
        res.extra['cli_rules_method'] = 'abstract interpretation of CLI.detect_or_inspect / do_merge / __call__ over all argument combinations'
    except _AE as e:
        res.extra['cli_rules_method'] = f'structural rules on the syntax tree (interpretation not possible: {e})'
        res.obligations = [o for o in res.obligations if o.rule not in ('LOOP-CONTAIN', 'FLAG-PLUMB', 'OUTPUT-EXACT', 'EXIT-MAP')]
        rules_shape.cli_rules(res, prog, raises, inspect_ok)
    rules_shape.detect_completed(res, prog)
    res.extra['from_file_may_raise'] = sorted(raises)
    res.floors = {'LOOP-CONTAIN': 4, 'FLAG-PLUMB': 4, 'OUTPUT-EXACT': 3, 'EXIT-MAP': 3}
    res.explanation = (
        'Static analysis: the may-raise set of MosFile.from_file is computed by the exception-flow interpreter (today: MosInvalidXML, '
        'UnknownMosFileType, OSError). CLI.detect_or_inspect, do_merge and __call__ are then interpreted for every combination of given / '
        'missing arguments with the library calls summarised (constructor -> fresh message or one of those exceptions; collection -> object '
        'or InvalidMosCollection): no such exception leaves the per-file loop or the command, the loop is never left early, every '
        'constructed message is reported under its own name and inspected iff requested (LOOP-CONTAIN); no inspect() has an exceptional exit '
        '(from C20); flags, bucket, prefix and suffix reach the library unchanged (FLAG-PLUMB); the written/printed value is str(mc)/mc through '
        'open(outfile, "w") (OUTPUT-EXACT); errors map to stderr + status 2 (EXIT-MAP); '
        'detect prints the class name with (completed) on the completed branch (DETECT-PRINT). NOT decided: argparse parsing and '
        'byte-exact console output.')
    res.assumptions = ['argparse behaviour; boto3 errors are outside the claim']
    res.trusted_base = TRUSTED[:1]
    return res


PROPS.update({'C10': prop_C10, 'C11': prop_C11, 'C18': prop_C18, 'C19': prop_C19})
TECHNIQUE.update({
    'C10': 'static analysis: abstract interpretation of the collection constructors over a symbolic source list (ctorflow) + structural rules on the ordering dunders + interpreted merge loop',
    'C11': 'static analysis: finite truth table of the acceptance predicate by abstract interpretation of MosCollection.__init__/_validate on exact representative reader lists (predtable) + no-assert lint',
    'C18': 'static analysis: abstract interpretation of the constructors (ctorflow), of the S3 listing over a symbolic paginator (s3flow) and of classification; pairing rules over readers (shape)',
    'C19': 'static analysis: abstract interpretation of the CLI entry points over all argument combinations with interpreter-computed may-raise sets of the library calls (cliflow)',
})
