"""Third part of the primitive model: method calls on abstract values, builtins, library calls."""
from __future__ import annotations

import ast
from dataclasses import replace
from typing import Any, List, Optional

from . import schema
from .domains import (PartV, BoolV, BoundV, ClsV, Const, DictE, ElemE, ExcV, ExtV, FuncV, IdxE, IterV, LenV, ListE,
                      MethV, ModV, NoneV, NumV, ObjE, Ref, S, State, StrV, TupleV, Unknown, Val)
from .front import AnalysisError, norm
from .model2 import STR_METHODS_BOOL, STR_METHODS_STR


def _Raise():
    from .interp import Raise
    return Raise


class ModelMixin3:
    # ------------------------------------------------------------- methods
    def model_method(self, recv: Val, name: str, args, kwargs, st: State, node):
        if isinstance(recv, Ref) and recv.kind == 'elem':
            return self.elem_method(recv, name, args, kwargs, st, node)
        if isinstance(recv, (StrV,)) or (isinstance(recv, Const) and isinstance(recv.v, str)):
            return self.str_method(recv, name, args, kwargs, st, node)
        if isinstance(recv, Ref) and recv.kind == 'list':
            return self.list_method(recv, name, args, kwargs, st, node)
        if isinstance(recv, Ref) and recv.kind == 'dict':
            return self.dict_method(recv, name, args, kwargs, st, node)
        if isinstance(recv, TupleV):
            if name == 'index' or name == 'count':
                return [(NumV(), st)]
        if isinstance(recv, (NumV, LenV)) or isinstance(recv, Const):
            return [(Unknown('number method'), st)]
        self.note(f'method {name} on {type(recv).__name__}')
        return [(Unknown('method ' + name), st)]

    def _arg(self, args, kwargs, i, name, default=None):
        if i < len(args):
            return args[i]
        return kwargs.get(name, default)

    def elem_method(self, p: Ref, name, args, kwargs, st: State, node):
        if name == 'find':
            t = self._arg(args, kwargs, 0, 'path')
            if isinstance(t, Const) and isinstance(t.v, str):
                return self.elem_find(p, t.v, st, node)
            if isinstance(t, NoneV):
                return [(self.exc('TypeError', st, node, 'find(None)'), st)]
            # dynamic tag: optional child with unknown tag
            pe: ElemE = st.get(p.sym)
            s2 = st.copy()
            self.stats['forks'] += 1
            sym = st.new(ElemE(pe.prov, None, p.sym, True, ('first', S(p.sym), self.describe(t, st)), schema=pe.schema))
            self.hook('find', st, node, parent=p, tag=t, result=Ref('elem', sym), path=False)
            return [(Ref('elem', sym), st), (NoneV(('absent', S(p.sym), self.describe(t, s2))), s2)]
        if name == 'findall':
            t = self._arg(args, kwargs, 0, 'path')
            if isinstance(t, Const) and isinstance(t.v, str):
                return self.elem_findall(p, t.v, st, node)
            sym = st.new(ListE('findall', 0, None, p.sym, None, stages=('findall(?)',)))
            return [(Ref('list', sym), st)]
        if name in ('iter', 'iterfind', 'getiterator', 'itertext'):
            self.hook('descend', st, node, parent=p, how=name)
            sym = st.new(ListE('findall', 0, None, None, None, stages=(name,), ordered=True))
            st.mon.setdefault('descend_of', {})[sym] = p.sym
            return [(Ref('list', sym), st)]
        if name == 'findtext':
            s2 = st.copy()
            return [(StrV(('findtext',)), st), (NoneV(), s2)]
        if name == 'get':
            k = self._arg(args, kwargs, 0, 'key')
            d = self._arg(args, kwargs, 1, 'default', NoneV())
            key = k.v if isinstance(k, Const) else '?'
            ovr = dict((st.mon.get('sym:attrovr') or {}).get(p.sym, ()))
            if key in ovr:
                return [((d if ovr[key] is None else ovr[key]), st)]       # attribute value fixed by the harness (None = absent)
            s2 = st.copy()
            self.stats['forks'] += 1
            return [(StrV(('attr', S(p.sym), key)), st), (d, s2)]
        if name == 'set':
            self.hook('elem-store', st, node, elem=p, attr='attrib', value=self._arg(args, kwargs, 1, 'value'))
            return [(NoneV(), st)]
        if name == 'remove':
            return self.do_remove(p, self._arg(args, kwargs, 0, 'subelement'), st, node)
        if name == 'insert':
            return self.do_insert(p, self._arg(args, kwargs, 0, 'index'), self._arg(args, kwargs, 1, 'subelement'), st, node)
        if name == 'append':
            return self.do_append(p, self._arg(args, kwargs, 0, 'subelement'), st, node)
        if name == 'extend':
            self.hook('extend', st, node, parent=p, items=self._arg(args, kwargs, 0, 'elements'))
            self.note('Element.extend is modelled as an opaque mutation')
            return [(NoneV(), st)]
        if name == 'clear':
            self.hook('clear', st, node, parent=p)
            return [(NoneV(), st)]
        if name == 'index':
            n = self._arg(args, kwargs, 0, 'value')
            return self.child_index(p, n, st, node)
        if name in ('keys', 'items'):
            return [(Unknown('attrib view'), st)]
        if name == 'copy' or name == '__copy__':
            return self.copy_elem(p, st, node, deep=False)
        if name == 'makeelement':
            sym = st.new(ElemE('NEW', None, None, False, ('new', '?')))
            return [(Ref('elem', sym), st)]
        self.note(f'Element.{name} not modelled')
        return [(Unknown('Element.' + name), st)]

    def child_index(self, p: Ref, n: Val, st: State, node):
        if isinstance(n, Ref) and n.kind == 'elem':
            ne: ElemE = st.get(n.sym)
            if ne.parent == p.sym and ne.attached is True:
                return [(Ref('idx', st.new(IdxE('fresh', p.sym, n.sym))), st)]
            s2 = st.copy()
            self.stats['forks'] += 1
            outs = [(self.exc('ValueError', s2, node, f'{self.describe(n, s2)} is not (or may no longer be) a child of {self.describe(p, s2)}'), s2)]
            if not (ne.parent == p.sym and ne.attached is False):
                outs.insert(0, (Ref('idx', st.new(IdxE('fresh', p.sym, n.sym))), st))
            return outs
        return [(self.exc('ValueError', st, node, 'index(): value not a child'), st)]

    def copy_elem(self, e: Ref, st: State, node, deep=True):
        ee: ElemE = st.get(e.sym)
        sym = st.new(ElemE('COPY', ee.tag, None, False, ('copy' if deep else 'shallowcopy', S(e.sym)), schema=ee.schema, copy_of=e.sym, stag=ee.stag))
        self.hook('copy', st, node, src=e, result=Ref('elem', sym), deep=deep)
        return [(Ref('elem', sym), st)]

    def str_method(self, recv, name, args, kwargs, st, node):
        if isinstance(recv, Const) and all(isinstance(a, Const) for a in args) and not kwargs and hasattr(str, name):
            try:
                v = getattr(recv.v, name)(*[a.v for a in args])
                if isinstance(v, (str, int, bool, float)):
                    return [(Const(v), st)]
                if isinstance(v, list):
                    items = tuple(Const(x) for x in v)
                    return [(Ref('list', st.new(ListE('lit', len(items), len(items), items=items))), st)]
            except Exception:
                pass
        if name in STR_METHODS_STR:
            if any(isinstance(a, NoneV) for a in args) and name in ('replace', 'join', 'removeprefix', 'removesuffix'):
                return [(self.exc('TypeError', st, node, f'str.{name}(None)'), st)]
            origin = (name, recv.origin) if isinstance(recv, StrV) else (name,)
            return [(StrV(origin), st)]
        if name in STR_METHODS_BOOL:
            if name in ('startswith', 'endswith') and args and isinstance(args[0], NoneV):
                return [(self.exc('TypeError', st, node, f'str.{name}(None)'), st)]
            s2 = st.copy()
            self.stats['forks'] += 1
            self.hook('str-test', st, node, recv=recv, name=name, args=args, taken=True)
            self.hook('str-test', s2, node, recv=recv, name=name, args=args, taken=False)
            return [(Const(True), st), (Const(False), s2)]
        if name in ('partition', 'rpartition'):
            if not args or isinstance(args[0], NoneV):
                return [(self.exc('TypeError', st, node, f'str.{name}(None)'), st)]
            base = recv.origin if isinstance(recv, StrV) else ()
            return [(TupleV(tuple(StrV((name, k, base)) for k in ('head', 'sep', 'tail'))), st)]       # always exactly three strings
        if name in ('split', 'rsplit', 'splitlines', 'partition', 'rpartition'):
            sym = st.new(ListE('str', 1, None, stages=('split',)))
            return [(Ref('list', sym), st)]
        if name in ('find', 'index', 'count', 'rfind'):
            return [(NumV(), st)]
        self.note(f'str.{name} not modelled')
        return [(Unknown('str.' + name), st)]

    def list_method(self, recv: Ref, name, args, kwargs, st: State, node):
        le: ListE = st.get(recv.sym)
        la = st.mon.get('lastapp')
        if name in ('append', 'extend', 'insert', 'pop', 'remove', 'clear', 'sort', 'reverse', '__setitem__', '__delitem__') and (la and recv.sym in la or name == 'append'):
            la = dict(la or {})
            la.pop(recv.sym, None)
            if name == 'append' and args and not getattr(self, '_internal_append', False):
                la[recv.sym] = args[0]          # xs[-1] right after xs.append(v) is v
            st.mon['lastapp'] = la
        if name in ('append', 'extend', 'insert') and not getattr(self, '_internal_append', False):
            self.lapp_note(st, recv.sym)
            if name != 'append':
                self.lapp_note(st, recv.sym)     # anything but a single append breaks the one-per-iteration pattern
        if name == 'append':
            v = args[0] if args else NoneV()
            if not getattr(self, '_internal_append', False):
                self.hook('list-append', st, node, list=recv, value=v)
            if le.kind == 'lit' and st.frame.loops == 0 and False:
                pass
            notin = isinstance(v, Ref) and ('notin', v.sym, recv.sym) in st.facts
            distinct = le.distinct and notin
            st.facts = {f for f in st.facts if not (f[0] == 'notin' and f[2] == recv.sym)}
            if le.kind == 'lit' and not self._in_loop(st):
                st.put(recv.sym, replace(le, items=le.items + (v,), lo=le.lo + 1, hi=le.hi + 1, distinct=distinct))
                return [(NoneV(), st)]
            # accumulating list: keep distinct templates
            items = list(le.items)
            owned = list(le.owned) if len(le.owned) == len(le.items) else [()] * len(le.items)
            def coarse(x):
                k = self._vk(x, st)
                if isinstance(k, tuple) and k and k[0] == 'elem':
                    return k[:3] + k[4:]        # element templates are compared modulo their current attachment state
                return k
            key = coarse(v)
            if not any(coarse(x) == key for x in items):
                items.append(v)
                owned.append(self.reachable(v, st, le.born))
            hi = None if le.hi is None else le.hi + 1
            st.put(recv.sym, replace(le, kind='accum', items=tuple(items), owned=tuple(owned), lo=min(le.lo + 1, 2), hi=None if self._in_loop(st) else hi, distinct=distinct))
            return [(NoneV(), st)]
        if name == 'extend':
            other = args[0] if args else None
            if le.kind == 'lit' and isinstance(other, Ref) and other.kind == 'list' and other.sym != recv.sym and not self._in_loop(st):
                # [a, b].extend(xs) outside a loop: the known elements first, then those of xs - the same shape as the display [a, b, *xs]
                ch = self._chain_list(tuple(le.items), [other], st)
                st.put(recv.sym, replace(st.get(ch.sym), stages=tuple(le.stages) + ('extend',)))
                if not getattr(self, '_internal_append', False):
                    self.hook('list-append', st, node, list=recv, value=other)
                return [(NoneV(), st)]
            items, owned = list(le.items), list(le.owned) if len(le.owned) == len(le.items) else [()] * len(le.items)
            ordered = le.ordered
            if isinstance(other, Ref) and other.kind == 'list':
                oe: ListE = st.get(other.sym)
                ordered = ordered and oe.ordered
                have = {repr(self._vk(x, st)) for x in items}
                for j, t in enumerate(oe.items):
                    if repr(self._vk(t, st)) not in have:
                        items.append(t)
                        owned.append(oe.owned[j] if j < len(oe.owned) else ())
                        have.add(repr(self._vk(t, st)))
                stages = tuple(le.stages) + tuple(x for x in oe.stages if x not in le.stages)
            else:
                self.note('list.extend with a non-list argument')
                stages = le.stages
            st.put(recv.sym, replace(le, kind='accum', hi=None, items=tuple(items), owned=tuple(owned), ordered=ordered, stages=stages))
            if not getattr(self, '_internal_append', False):
                self.hook('list-append', st, node, list=recv, value=other)
            return [(NoneV(), st)]
        if name == 'index':
            src = le
            base = le
            # list(parent).index(child) -> child index
            if le.kind in ('children', 'live') and le.parent and args:
                if le.dirty:
                    s2 = st.copy()
                    why = f'position in a snapshot of the children of {self.describe(Ref("elem", le.parent), st)} taken before that element was modified'
                    outs = [(Ref('idx', st.new(IdxE('stale', le.parent, args[0].sym if isinstance(args[0], Ref) else None, why=why))), st)]
                    a0 = args[0]
                    if not (isinstance(a0, Ref) and a0.kind == 'elem' and st.get(a0.sym).parent == le.parent):
                        outs.append((self.exc('ValueError', s2, node, 'value is not in list'), s2))
                    return outs
                return self.child_index(Ref('elem', le.parent), args[0], st, node)
            if le.kind == 'lit' and args and isinstance(args[0], Ref) and all(isinstance(x, Ref) for x in le.items) \
                    and not any(self.prog.classes[s_.get(x.sym).cls].find('__eq__') for s_ in (st,) for x in le.items
                                if x.kind == 'obj' and hasattr(s_.get(x.sym), 'cls')):
                # exact list of distinct objects compared by identity: the position is known
                for k, x in enumerate(le.items):
                    if x == args[0]:
                        return [(Ref('idx', st.new(IdxE('const', const=k, descr=str(k)))), st)]
                return [(self.exc('ValueError', st, node, 'value is not in list'), st)]
            s2 = st.copy()
            return [(Ref('idx', st.new(IdxE('foreign', why=f'position in {self.describe(recv, st)}'))), st),
                    (self.exc('ValueError', s2, node, 'value is not in list'), s2)]
        if name in ('sort', 'reverse'):
            st.put(recv.sym, replace(le, ordered=False, stages=le.stages + (name,)))
            self.hook('reorder', st, node, list=recv, how=name)
            return [(NoneV(), st)]
        if name == 'copy':
            return [(Ref('list', st.new(replace(le, born=0))), st)]
        if name == 'pop':
            outs = []
            for ok, s in self.len_cmp(recv.sym, '>', 0, st):
                if ok:
                    outs.extend(self.list_elem(recv, s, 0, node))
                else:
                    outs.append((self.exc('IndexError', s, node, 'pop from empty list'), s))
            return outs
        if name == 'count':
            return [(NumV(), st)]
        if name in ('insert', 'remove', 'clear'):
            st.put(recv.sym, replace(le, kind='accum' if le.kind != 'lit' else 'lit', lo=0, hi=None))
            return [(NoneV(), st)]
        if name in ('add', 'update', 'discard'):
            items = le.items
            if name == 'add' and args:
                key = self._vk(args[0], st)
                if not any(self._vk(x, st) == key for x in items):
                    items = items + (args[0],)
            st.put(recv.sym, replace(le, kind='set' if le.kind in ('lit', 'set') else le.kind, lo=0, hi=None, items=items, ordered=False))
            return [(NoneV(), st)]
        self.note(f'list.{name} not modelled')
        return [(Unknown('list.' + name), st)]

    def _in_loop(self, st: State) -> bool:
        return bool(st.mon.get('itlog'))

    def dict_method(self, recv: Ref, name, args, kwargs, st: State, node):
        d: DictE = st.get(recv.sym)
        attrib_of = (st.mon.get('attrib_of') or {}).get(recv.sym)
        if name == 'items':
            return [(IterV('items', recv), st)]
        if name == 'keys':
            return [(recv, st)]
        if name == 'values':
            items = tuple(v for _, v in d.items)
            if d.exact:
                return [(Ref('list', st.new(ListE('lit', len(items), len(items), items=items))), st)]
            # the values of a mapping filled from a sequence: entries whose keys are equal have collapsed into one, so this
            # is not "every element of the sequence, in order"
            return [(Ref('list', st.new(ListE('accum', 0, None, items=items, ordered=False, stages=('dict.values',)))), st)]
        if name == 'get':
            k = args[0] if args else NoneV()
            default = args[1] if len(args) > 1 else kwargs.get('default', NoneV())
            if attrib_of is not None:
                key = k.v if isinstance(k, Const) else '?'
                ovr = dict((st.mon.get('sym:attrovr') or {}).get(attrib_of, ()))
                if key in ovr:
                    return [((default if ovr[key] is None else ovr[key]), st)]
                s2 = st.copy()
                self.stats['forks'] += 1
                return [(StrV(('attr', S(attrib_of), key)), st), (default, s2)]
            if d.exact and self._is_concrete(k) and all(self._is_concrete(a) for a, _ in d.items):
                for a, b in d.items:
                    if a == k:
                        return [(b, st)]
                return [(default, st)]
            outs = []
            seen = set()
            for a, b in d.items:
                if self._may_equal(a, k) and b not in seen:
                    seen.add(b)
                    outs.append((b, st.copy()))
            if not d.exact and not d.items:
                outs.append((Unknown('dict value'), st.copy()))
            outs.append((default, st.copy()))
            return outs
        if name == 'setdefault' and args and attrib_of is None:
            k = args[0]
            val = args[1] if len(args) > 1 else NoneV()
            olds = [b for a, b in d.items if self._may_equal(a, k)]
            if d.exact and self._is_concrete(k) and all(self._is_concrete(a) for a, _ in d.items):
                hit = [b for a, b in d.items if a == k]
                if hit:
                    return [(hit[0], st)]
                return [(val, s) for _, s in self.model_setitem(recv, k, val, st, node)]
            outs = []
            for b in dict.fromkeys(olds):
                outs.append((b, st.copy()))           # the key was there already: the mapping keeps the earlier value
            outs.extend((val, s) for _, s in self.model_setitem(recv, k, val, st, node))
            return outs
        if name in ('pop', 'setdefault', 'update', 'clear'):
            st.put(recv.sym, replace(d, exact=False))
            return [(Unknown('dict.' + name), st)]
        self.note(f'dict.{name} not modelled')
        return [(Unknown('dict.' + name), st)]

    # ---------------------------------------------------- builtins / library
    def model_ext(self, name: str, args, kwargs, st: State, node):
        Raise = _Raise()
        short = name.split('.')[-1]
        if name.startswith('builtins.'):
            return self.builtin(short, args, kwargs, st, node)
        if name == 'object.__init__':
            return [(NoneV(), st)]
        # copy
        if name in ('copy.deepcopy', 'copy.copy'):
            v = args[0] if args else NoneV()
            memo = kwargs.get('memo', args[1] if len(args) > 1 else None)
            if memo is not None and not isinstance(memo, NoneV):
                # a caller-supplied memo that outlives the call makes repeated copies of one element the *same* object
                self.hook('copy-memo', st, node, src=v, memo=memo)
            if isinstance(v, Ref) and v.kind == 'elem':
                return self.copy_elem(v, st, node, deep=(name == 'copy.deepcopy'))
            return [(v, st)]
        # warnings / logging
        if name == 'warnings.warn':
            cat = args[1] if len(args) > 1 else kwargs.get('category', ClsV('ext:UserWarning'))
            self.hook('warn', st, node, category=cat, message=args[0] if args else None)
            return [(NoneV(), st)]
        if name.startswith('warnings.'):
            return [(NoneV(), st)]
        if name.startswith('result:logging.getLogger') or name.startswith('logging.'):
            return [(NoneV() if name.startswith('result:') else ExtV('result:' + name), st)]
        # ElementTree
        if name in ('xml.etree.ElementTree.fromstring', 'xml.etree.ElementTree.XML', 'xml.etree.ElementTree.parse'):
            self.hook('parse', st, node, name=name, args=args, kwargs=kwargs)
        if name in ('xml.etree.ElementTree.fromstring', 'xml.etree.ElementTree.XML'):
            return self.parse_doc(args, st, node, from_file=False)
        if name == 'xml.etree.ElementTree.parse':
            outs = self.parse_doc(args, st, node, from_file=True)
            return outs
        if name == 'etree-tree.getroot':
            return [(self._last_parsed(st), st)]
        if name == 'xml.etree.ElementTree.tostring':
            v = args[0] if args else NoneV()
            self.hook('serialize', st, node, elem=v, kwargs=kwargs)
            if isinstance(v, NoneV):
                return [(self.exc('AttributeError', st, node, "tostring(None)"), st)]
            enc = kwargs.get('encoding')
            if isinstance(enc, Const) and enc.v == 'unicode':
                return [(StrV(('xml', )), st)]
            return [(StrV(('xml-bytes',)), st)]
        if name in ('xml.etree.ElementTree.SubElement',):
            p = args[0] if args else NoneV()
            t = args[1] if len(args) > 1 else kwargs.get('tag')
            if isinstance(p, NoneV):
                return [(self.exc('AttributeError', st, node, 'SubElement(None, ...)'), st)]
            if isinstance(p, Ref) and p.kind == 'elem':
                tag = t.v if isinstance(t, Const) else None
                sym = st.new(ElemE('NEW', tag, None, False, ('new', tag, S(p.sym))))
                n = Ref('elem', sym)
                self.hook('newchild', st, node, parent=p, node_=n, tag=tag)
                outs = self.do_append(p, n, st, node)
                return [(n if not isinstance(v, Raise) else v, s) for v, s in outs]
            return [(Unknown('SubElement'), st)]
        if name in ('xml.etree.ElementTree.Element',):
            t = args[0] if args else kwargs.get('tag')
            tag = t.v if isinstance(t, Const) else None
            sym = st.new(ElemE('NEW', tag, None, False, ('new', tag, None)))
            return [(Ref('elem', sym), st)]
        # dateutil / datetime
        if name in ('dateutil.parser.parse',):
            v = args[0] if args else NoneV()
            if isinstance(v, NoneV):
                return [(self.exc('TypeError', st, node, 'Parser must be a string or character stream, not NoneType'), st)]
            return [(ExtV('datetime'), st)]
        if name in ('datetime.timedelta',):
            for v in list(args) + list(kwargs.values()):
                if isinstance(v, NoneV):
                    return [(self.exc('TypeError', st, node, 'unsupported type for timedelta component: NoneType'), st)]
            return [(ExtV('timedelta'), st)]
        if name == 'itertools.chain' and args and not kwargs:
            # chain(a, b, ...): with an endless supplier among the arguments the result never ends (its elements: any of the parts');
            # otherwise the known elements followed by the lists
            def is_endless(a):
                return isinstance(a, Ref) and a.kind == 'list' and st.get(a.sym).kind in ('repeat', 'count')
            if any(is_endless(a) for a in args):
                items = []
                for a in args:
                    if isinstance(a, TupleV):
                        items.extend(a.items)
                    elif isinstance(a, Ref) and a.kind == 'list':
                        items.extend(st.get(a.sym).items if st.get(a.sym).kind != 'count' else (NumV(('count',)),))
                    else:
                        items.append(Unknown('chained element'))
                return [(Ref('list', st.new(ListE('repeat', 2, None, items=tuple(items) or (Unknown('chained element'),), stages=('itertools.chain', 'itertools.repeat')))), st)]
            if all(isinstance(a, TupleV) for a in args):
                return [(TupleV(tuple(x for a in args for x in a.items)), st)]
            if all(isinstance(a, TupleV) or (isinstance(a, Ref) and a.kind == 'list') for a in args):
                stars = []
                for a in args:
                    if isinstance(a, TupleV):
                        a = Ref('list', st.new(ListE('lit', len(a.items), len(a.items), items=a.items)))
                    stars.append(a)
                return [(self._chain_list((), stars, st), st)]
        if name.startswith('itertools.chain'):
            v = args[0] if args else NoneV()
            if short == 'from_iterable' and isinstance(v, Ref) and v.kind == 'list':
                le: ListE = st.get(v.sym)
                # templates of the outer list are themselves lists: flatten their templates
                items, owned, ordered = [], [], le.ordered
                for t in le.items:
                    if isinstance(t, Ref) and t.kind == 'list' and t.sym in st.heap:
                        inner: ListE = st.get(t.sym)
                        ordered = ordered and inner.ordered
                        for j, x in enumerate(inner.items):
                            items.append(x)
                            owned.append(inner.owned[j] if j < len(inner.owned) else ())
                    elif isinstance(t, TupleV):
                        for x in t.items:            # a tuple among the chained iterables (e.g. `()` for "nothing here")
                            items.append(x)
                            owned.append(())
                    else:
                        items.append(Unknown('chained element'))
                        owned.append(())
                sym = st.new(ListE('chain', 0, None, items=tuple(items), owned=tuple(owned), src=v.sym, ordered=ordered,
                                   stages=le.stages + ('chain.from_iterable',)))
                return [(Ref('list', sym), st)]
            return [(Unknown('chain'), st)]
        if name.endswith('.read_text') or name == 'file.read' or name.endswith('.read_bytes'):
            # reading a file: the OS may refuse, and decoding text may fail (a well-formed XML file need not be UTF-8)
            outs = [(StrV(('file contents',)) if not name.endswith('.read_bytes') else Unknown('bytes'), st)]
            s2 = st.copy()
            outs.append((self.exc('OSError', s2, node, 'the file cannot be read'), s2))
            if not name.endswith('.read_bytes'):
                s3 = st.copy()
                outs.append((self.exc('UnicodeDecodeError', s3, node, 'the file is not valid text in the chosen encoding'), s3))
            return outs
        if name == 'itertools.accumulate':
            ini = kwargs.get('initial')
            if isinstance(ini, Ref) and ini.kind == 'idx':
                # running positions built from an index and a sequence of increments: the index typestate cannot follow
                # this (which increment belongs to which insertion); no verdict rather than a guess
                raise AnalysisError('child positions computed with itertools.accumulate(..., initial=<index>) are outside the index abstraction')
        if name == 'itertools.groupby' and args:
            # runs of consecutive elements with an equal key: decided only for an exact sequence whose keys are concrete values
            src = args[0]
            seq = src.items if isinstance(src, TupleV) else (st.get(src.sym).items if isinstance(src, Ref) and src.kind == 'list' and st.get(src.sym).kind == 'lit' else None)
            keyf = args[1] if len(args) > 1 else kwargs.get('key')
            def summary(s):
                # runs of a sequence known only by its element templates: some number of (key, non-empty run) pairs
                tmpl = st_items(src, s)
                g = s.new(ListE('accum', 1, None, items=tmpl, stages=('itertools.groupby run',)))
                return [(Ref('list', s.new(ListE('accum', 0, None, items=(TupleV((Unknown('groupby key'), Ref('list', g))),), stages=('itertools.groupby',)))), s)]

            def st_items(v, s):
                if isinstance(v, TupleV):
                    return v.items
                if isinstance(v, Ref) and v.kind == 'list':
                    return s.get(v.sym).items
                raise AnalysisError('itertools.groupby over something that is not a sequence')
            if seq is None:
                return summary(st)
            groups, cur = [], st
            snapshot = st.copy()
            for x in seq:
                if keyf is None or isinstance(keyf, NoneV):
                    k = x
                else:
                    outs = [(v, s) for v, s in self.call_value(keyf, [x], {}, cur, node)]
                    if len(outs) != 1 or isinstance(outs[0][0], _Raise()):
                        raise AnalysisError('itertools.groupby: the key function forks or raises')
                    k, cur = outs[0]
                if not self._is_concrete(k):
                    return summary(snapshot)
                if groups and groups[-1][0] == k:
                    groups[-1][1].append(x)
                else:
                    groups.append((k, [x]))
            items = []
            for k, xs in groups:
                g = cur.new(ListE('lit', len(xs), len(xs), items=tuple(xs)))
                items.append(TupleV((k, Ref('list', g))))
            return [(Ref('list', cur.new(ListE('lit', len(items), len(items), items=tuple(items), stages=('itertools.groupby',)))), cur)]
        if name == 'itertools.repeat' and len(args) == 1 and not kwargs:
            return [(Ref('list', st.new(ListE('repeat', 2, None, items=(args[0],), stages=('itertools.repeat',)))), st)]
        if name == 'itertools.count' and len(args) <= 2 and not kwargs:
            # a counter object: its current value lives in the heap so that next(counter) advances it
            start = args[0] if args else Const(0)
            step = args[1] if len(args) > 1 else Const(1)
            return [(Ref('list', st.new(ListE('count', 2, None, spec=(start, step, Const(False)), stages=('itertools.count',)))), st)]
        if name in ('operator.is_not', 'operator.is_') and len(args) == 2:
            return [(Const(b if name.endswith('is_') else not b), s) for b, s in self.identical(args[0], args[1], st, node)]
        if name in ('operator.not_', 'operator.truth') and len(args) == 1:
            return [(Const(b if name.endswith('truth') else not b), s) for b, s in self.truth(args[0], st, node)]
        if name in ('operator.eq', 'operator.ne') and len(args) == 2:
            return [((Const(b if name.endswith('eq') else not b) if not isinstance(b, _Raise()) else b), s) for b, s in self.equal(args[0], args[1], st, node)]
        if name == 'functools.partial' and args:
            return [(PartV('partial', args[0], tuple(args[1:]), tuple(sorted(kwargs.items()))), st)]
        if name in ('operator.attrgetter', 'operator.itemgetter', 'operator.methodcaller'):
            return [(PartV(name.split('.')[-1], None, tuple(args), tuple(sorted(kwargs.items()))), st)]
        if name in ('collections.OrderedDict',):
            return self.builtin('dict', args, kwargs, st, node)
        if name in ('collections.deque',) and len(args) <= 1 and not kwargs:
            return self.builtin('list', args, kwargs, st, node)
        if name == 'itertools.islice' and len(args) in (2, 3, 4) and all(isinstance(a, (Const, NoneV)) for a in args[1:]):
            nums = [None if isinstance(a, NoneV) else a.v for a in args[1:]]
            spec = (None, nums[0], None) if len(nums) == 1 else (nums + [None])[:3]
            outs = []
            for lv, s in self.builtin('list', [args[0]], {}, st, node):
                if not isinstance(lv, _Raise()) and tuple(spec) in ((0, None, None), (None, None, None), (0, None, 1), (None, None, 1)):
                    outs.append((lv, s))          # islice(xs, 0, None): everything
                else:
                    outs.extend([(lv, s)] if isinstance(lv, _Raise()) else self.model_slice(lv, tuple(spec), s, node))
            return outs
        if name == 'itertools.starmap' and len(args) == 2:
            import ast as _ast
            fname, xname, vname = '%mapf', '%mapxs', '%mapx'
            st.frame.env[fname], st.frame.env[xname] = args[0], args[1]
            call = _ast.Call(func=_ast.Name(id=fname, ctx=_ast.Load()), args=[_ast.Starred(value=_ast.Name(id=vname, ctx=_ast.Load()), ctx=_ast.Load())], keywords=[])
            gen = _ast.comprehension(target=_ast.Name(id=vname, ctx=_ast.Store()), iter=_ast.Name(id=xname, ctx=_ast.Load()), ifs=[], is_async=0)
            comp = _ast.ListComp(elt=call, generators=[gen])
            _ast.copy_location(comp, node) if node is not None else None
            _ast.fix_missing_locations(comp)
            outs = self.comprehension(comp, st, 'list')
            for _, s in outs:
                for nme in (fname, xname, vname):
                    s.frame.env.pop(nme, None)
            return outs
        if name == 'contextlib.suppress':
            names = []
            for a in args:
                if isinstance(a, ClsV):
                    names.append(a.qual.split(':')[-1])
                else:
                    raise AnalysisError('contextlib.suppress with a non-class argument')
            return [(ExtV('suppress:' + ','.join(names)), st)]
        if name in ('collections.namedtuple', 'typing.NamedTuple'):
            return [(ExtV('namedtuple-class'), st)]
        if name in ('namedtuple-class', 'result:collections.namedtuple'):
            return [(TupleV(tuple(args) + tuple(kwargs.values())), st)]       # a plain record: fields in call order
        if name in ('collections.Counter', 'Counter'):
            src = args[0] if args else None
            if src is None:
                return [(Ref('dict', st.new(DictE((), True, default=Const(0)))), st)]
            if isinstance(src, TupleV):
                seq = src.items
            elif isinstance(src, Ref) and src.kind == 'list' and st.get(src.sym).kind == 'lit':
                seq = st.get(src.sym).items
            else:
                seq = None
            if seq is not None and all(self._is_concrete(x) for x in seq):
                counts = {}
                for x in seq:
                    counts[x] = counts.get(x, 0) + 1
                return [(Ref('dict', st.new(DictE(tuple((k, Const(n)) for k, n in counts.items()), True, default=Const(0)))), st)]
            return [(Ref('dict', st.new(DictE((), False, default=Const(0)))), st)]
        if name.startswith('xmltodict.'):
            return [(Unknown('xmltodict'), st)]
        if name.startswith('sentinel:'):
            return [(Unknown('call of sentinel'), st)]
        # anything else: opaque external call (boto3, argparse, sys, open ...)
        self.hook('ext-call', st, node, name=name, args=args, kwargs=kwargs)
        return self.opaque_ext(name, args, kwargs, st, node)

    def opaque_ext(self, name, args, kwargs, st, node):
        return [(ExtV('result:' + name), st)]

    def _last_parsed(self, st):
        return st.mon.get('parsed_root', Unknown('root'))

    def parse_doc(self, args, st: State, node, from_file):
        s_err = st.copy()
        self.stats['forks'] += 1
        outs = [(self.exc('ParseError', s_err, node, 'not well-formed XML'), s_err)]
        if from_file:
            s_os = st.copy()
            outs.append((self.exc('OSError', s_os, node, 'file cannot be opened'), s_os))
        root = self.new_document(st, node)
        if from_file:
            st.mon['parsed_root'] = root
            outs.insert(0, (ExtV('etree-tree'), st))
        else:
            outs.insert(0, (root, st))
        return outs

    def new_document(self, st: State, node) -> Ref:
        sym = st.new(ElemE('MSG', schema.ROOT, None, False, ('root', 'PARSED'), schema=False))
        return Ref('elem', sym)

    def builtin(self, name, args, kwargs, st: State, node):
        Raise = _Raise()
        a0 = args[0] if args else None
        if name == 'len':
            if isinstance(a0, NoneV):
                return [(self.exc('TypeError', st, node, "object of type 'NoneType' has no len()"), st)]
            if isinstance(a0, Ref) and a0.kind == 'elem':
                return [(Ref('idx', st.new(IdxE('end', a0.sym))), st)]
            if isinstance(a0, Ref) and a0.kind == 'list':
                le = st.get(a0.sym)
                if le.kind == 'lit':
                    return [(Const(len(le.items)), st)]
                return [(LenV(a0.sym), st)]
            if isinstance(a0, TupleV):
                return [(Const(len(a0.items)), st)]
            if isinstance(a0, Const) and isinstance(a0.v, str):
                return [(Const(len(a0.v)), st)]
            if isinstance(a0, Ref) and a0.kind == 'dict' and st.get(a0.sym).exact:
                return [(Const(len(st.get(a0.sym).items)), st)]
            return [(NumV(), st)]
        if name in ('list', 'tuple', 'set', 'frozenset'):
            if a0 is None:
                return [(Ref('list', st.new(ListE('lit' if name != 'set' else 'set', 0, 0, tuple_=(name == 'tuple')))), st)]
            if isinstance(a0, NoneV):
                return [(self.exc('TypeError', st, node, "'NoneType' object is not iterable"), st)]
            if isinstance(a0, Ref) and a0.kind == 'elem':
                return [(Ref('list', st.new(ListE('children', 0, None, a0.sym, None, stages=('list(children)',),
                                                   ordered=(name not in ('set', 'frozenset'))))), st)]
            if isinstance(a0, Ref) and a0.kind == 'list':
                le: ListE = st.get(a0.sym)
                if name in ('set', 'frozenset'):
                    self.hook('reorder', st, node, list=a0, how=name)
                    return [(Ref('list', st.new(replace(le, kind='set' if le.kind != 'lit' else 'lit', ordered=False, lo=min(le.lo, 1),
                                                        stages=le.stages + (name,), born=0))), st)]
                if name == 'tuple' and le.kind == 'lit':
                    return [(TupleV(le.items), st)]
                return [(Ref('list', st.new(replace(le, born=0, tuple_=(name == 'tuple')))), st)]
            if isinstance(a0, TupleV):
                if name == 'tuple':
                    return [(a0, st)]
                return [(Ref('list', st.new(ListE('lit', len(a0.items), len(a0.items), items=a0.items, ordered=(name == 'list')))), st)]
            if isinstance(a0, IterV):
                # list(zip(...)) / list(enumerate(...)): run the iterator now ([v for v in it])
                xname, vname = '%matxs', '%matx'
                st.frame.env[xname] = a0
                gen = ast.comprehension(target=ast.Name(id=vname, ctx=ast.Store()), iter=ast.Name(id=xname, ctx=ast.Load()), ifs=[], is_async=0)
                comp = ast.ListComp(elt=ast.Name(id=vname, ctx=ast.Load()), generators=[gen])
                if node is not None:
                    ast.copy_location(comp, node)
                ast.fix_missing_locations(comp)
                outs = self.comprehension(comp, st, 'list')
                for _, s in outs:
                    s.frame.env.pop(xname, None)
                    s.frame.env.pop(vname, None)
                return outs
            if isinstance(a0, Ref) and a0.kind == 'dict':
                d = st.get(a0.sym)
                items = tuple(k for k, _ in d.items)
                return [(Ref('list', st.new(ListE('lit' if d.exact else 'accum', len(items) if d.exact else 0, len(items) if d.exact else None, items=items))), st)]
            return [(Ref('list', st.new(ListE('accum', 0, None, ordered=False, stages=('list(unknown)',)))), st)]
        if name in ('sorted', 'reversed'):
            if isinstance(a0, NoneV):
                return [(self.exc('TypeError', st, node, "'NoneType' object is not iterable"), st)]
            self.hook('reorder', st, node, list=a0, how=name, kwargs=kwargs)
            if isinstance(a0, Ref) and a0.kind == 'list':
                le: ListE = st.get(a0.sym)
                if le.kind == 'lit' and name == 'reversed':
                    return [(Ref('list', st.new(replace(le, items=tuple(reversed(le.items)), born=0))), st)]
                outs = [(Ref('list', st.new(replace(le, kind='reorder', src=a0.sym, ordered=False, stages=le.stages + (name,), born=0,
                                                    items=le.items, owned=le.owned))), st)]
                if name == 'sorted' and 'key' not in kwargs:
                    outs = self.sort_compare(a0, le, outs, st, node)
                return outs
            if isinstance(a0, Ref) and a0.kind == 'elem':
                return [(Ref('list', st.new(ListE('children', 0, None, a0.sym, None, ordered=False, stages=(name + '(children)',)))), st)]
            if isinstance(a0, TupleV):
                items = tuple(reversed(a0.items)) if name == 'reversed' else a0.items
                return [(Ref('list', st.new(ListE('lit', len(items), len(items), items=items, ordered=False))), st)]
            return [(Ref('list', st.new(ListE('accum', 0, None, ordered=False, stages=(name,)))), st)]
        if name == 'enumerate':
            start = args[1] if len(args) > 1 else kwargs.get('start', Const(0))
            if isinstance(a0, NoneV):
                return [(self.exc('TypeError', st, node, "'NoneType' object is not iterable"), st)]
            if isinstance(start, NoneV):
                return [(self.exc('TypeError', st, node, "'NoneType' object cannot be interpreted as an integer"), st)]
            return [(IterV('enumerate', a0, start), st)]
        if name == 'zip':
            return [(IterV('zip', TupleV(tuple(args))), st)]
        if name in ('all', 'any'):
            if isinstance(a0, Ref) and a0.kind == 'list':
                le: ListE = st.get(a0.sym)
                if le.hi == 0:
                    return [(Const(name == 'all'), st)]
            s2 = st.copy()
            self.stats['forks'] += 1
            self.hook('allany', st, node, which=name, arg=a0, taken=True)
            self.hook('allany', s2, node, which=name, arg=a0, taken=False)
            return [(Const(True), st), (Const(False), s2)]
        if name == 'sum':
            if isinstance(a0, Ref) and a0.kind == 'list':
                le: ListE = st.get(a0.sym)
                if le.hi != 0 and any(isinstance(t, NoneV) for t in le.items):
                    s2 = st.copy()
                    outs = [(self.exc('TypeError', s2, node, "unsupported operand type(s) for +: 'int' and 'NoneType' (sum over " + self.describe(a0, s2) + ')'), s2)]
                    if le.lo == 0 or any(not isinstance(t, NoneV) for t in le.items):
                        outs.insert(0, (NumV(), st))
                    return outs
            return [(NumV(), st)]
        if name in ('int', 'float'):
            if isinstance(a0, NoneV):
                return [(self.exc('TypeError', st, node, f"{name}() argument must be a string or a number, not 'NoneType' ({self.describe(a0, st)})"), st)]
            if isinstance(a0, Const):
                try:
                    return [(Const(int(a0.v) if name == 'int' else float(a0.v)), st)]
                except (ValueError, TypeError):
                    return [(self.exc('ValueError', st, node, f'invalid literal for {name}()'), st)]
            if isinstance(a0, StrV):
                self.hook('numparse', st, node, fn=name, arg=a0)
                return [(NumV(('parsed-' + name,)), st)]
            return [(NumV(), st)]
        if name in ('str', 'repr', 'format'):
            if isinstance(a0, Const):
                return [(Const(str(a0.v)), st)]
            if isinstance(a0, Ref) and a0.kind == 'obj':
                e: ObjE = st.get(a0.sym)
                fi = self.prog.classes[e.cls].find('__str__' if name == 'str' else '__repr__')
                if fi is not None:
                    return self.call_function(fi, [], {}, st, node, self_val=a0)
            if isinstance(a0, StrV):
                return [(a0, st)]
            if isinstance(a0, ExcV):
                return [(StrV(('exc-message',)), st)]
            return [(StrV((name, self.describe(a0, st) if a0 is not None else '')), st)]
        if name == 'bool':
            if a0 is None:
                return [(Const(False), st)]
            return [(Const(b), s) for b, s in self.truth(a0, st, node)]
        if name == 'print':
            self.hook('print', st, node, args=args, kwargs=kwargs)
            outs = [(NoneV(), st)]
            for a in args:
                if isinstance(a, Ref) and a.kind == 'obj':
                    e: ObjE = st.get(a.sym)
                    fi = self.prog.classes[e.cls].find('__str__')
                    if fi is not None:
                        nxt = []
                        for v, s in outs:
                            if isinstance(v, Raise):
                                nxt.append((v, s))
                            else:
                                for v2, s2 in self.call_function(fi, [], {}, s, node, self_val=a):
                                    nxt.append((v2 if isinstance(v2, Raise) else NoneV(), s2))
                        outs = nxt
            return outs
        if name == 'issubclass':
            cls = args[1] if len(args) > 1 else None
            cands = cls.items if isinstance(cls, TupleV) else (cls,)
            if isinstance(a0, ClsV) and not a0.qual.startswith('ext:') and all(isinstance(c, ClsV) and not c.qual.startswith('ext:') for c in cands):
                mro = [c.qualname for c in self.prog.classes[a0.qual].mro]
                return [(Const(any(c.qual in mro for c in cands)), st)]
            s2 = st.copy()
            return [(Const(True), st), (Const(False), s2)]
        if name == 'isinstance':
            cls = args[1] if len(args) > 1 else None
            r = self.isinstance_(a0, cls, st)
            if r is not None:
                return [(Const(r), st)]
            s2 = st.copy()
            return [(Const(True), st), (Const(False), s2)]
        if name == 'type':
            if isinstance(a0, Ref) and a0.kind == 'elem':
                return [(ExtV('xml.etree.ElementTree.Element'), st)]
            if isinstance(a0, Ref) and a0.kind == 'obj':
                return [(ClsV(st.get(a0.sym).cls), st)]
            if isinstance(a0, NoneV):
                return [(ExtV('builtins.NoneType'), st)]
            if isinstance(a0, (StrV,)) or (isinstance(a0, Const) and isinstance(a0.v, str)):
                return [(ExtV('builtins.str'), st)]
            return [(Unknown('type'), st)]
        if name == 'open':
            self.hook('open', st, node, args=args, kwargs=kwargs)
            s2 = st.copy()
            return [(ExtV('file'), st), (self.exc('OSError', s2, node, 'open() failed'), s2)]
        if name in ('min', 'max', 'abs', 'round', 'hash', 'id', 'ord'):
            return [(NumV(), st)]
        if name == 'range':
            for a in args:
                if isinstance(a, Ref) and a.kind == 'idx' and a.sym in st.heap and st.get(a.sym).kind == 'foreign' and 'len(' in (st.get(a.sym).why or ''):
                    # range(len(xs) - 1) ... xs[i]: the relation between the counter and the list is not tracked: no verdict
                    raise AnalysisError('range() over arithmetic on len(): positions computed from a length are outside the abstraction')
            return [(Ref('list', st.new(ListE('accum', 0, None, items=(NumV(),), stages=('range',)))), st)]
        if name == 'dict':
            return [(Ref('dict', st.new(DictE((), not args and not kwargs))), st)]
        if name == 'getattr':
            if len(args) >= 2 and isinstance(args[1], Const):
                outs = self.getattr_(a0, args[1].v, st, node)
                if len(args) > 2:
                    outs = [((args[2] if isinstance(v, Raise) and v.exc.cls == 'AttributeError' else v), s) for v, s in outs]
                return outs
            raise AnalysisError('getattr with a computed name')
        if name == 'hasattr':
            s2 = st.copy()
            return [(Const(True), st), (Const(False), s2)]
        if name == 'iter':
            return [(a0, st)]
        if name == 'next':
            if isinstance(a0, Ref) and a0.kind == 'list' and st.get(a0.sym).kind == 'count':
                le0 = st.get(a0.sym)
                cur, step, pending = le0.spec
                # the increment is applied when the *next* value is asked for, i.e. after whatever the caller did with
                # the previous one (an insert at that position, typically)
                if not pending.v:
                    st.put(a0.sym, replace(le0, spec=(cur, step, Const(True))))
                    return [(cur, st)]
                outs = []
                for nv, s in self.model_binop(ast.Add(), cur, step, st, node):
                    if isinstance(nv, Raise):
                        outs.append((nv, s))
                    else:
                        s.put(a0.sym, replace(s.get(a0.sym), spec=(nv, step, Const(True))))
                        outs.append((nv, s))
                return outs
            if isinstance(a0, Ref) and a0.kind == 'list' and st.get(a0.sym).kind == 'lit':
                le0 = st.get(a0.sym)
                if le0.items:
                    return [(le0.items[0], st)]
                return [(self.exc('StopIteration', st, node), st)] if len(args) < 2 else [(args[1], st)]
            if isinstance(a0, TupleV):
                if a0.items:
                    return [(a0.items[0], st)]
                return [(self.exc('StopIteration', st, node), st)] if len(args) < 2 else [(args[1], st)]
            if isinstance(a0, Ref) and a0.kind == 'list':
                # the first element of a child search (or of its tail xs[a:]) is the indexed element xs[a]; exhausted where
                # indexing would raise IndexError
                base, off, le0 = a0, 0, st.get(a0.sym)
                if le0.kind == 'slice' and le0.spec and le0.spec[2] in (None, 1) and le0.spec[1] is None and (le0.spec[0] or 0) >= 0 and le0.src in st.heap:
                    base, off = Ref('list', le0.src), le0.spec[0] or 0
                if st.get(base.sym).kind in ('findall', 'children', 'live'):
                    res = []
                    for v, s in self.model_getitem(base, Const(off), st, node):
                        if isinstance(v, Raise) and v.exc.cls == 'IndexError':
                            res.append((self.exc('StopIteration', s, node), s) if len(args) < 2 else (args[1], s))
                        else:
                            res.append((v, s))
                    return res
            s2 = st.copy()
            outs = [(self.exc('StopIteration', s2, node), s2)] if len(args) < 2 else [(args[1], s2)]
            if isinstance(a0, Ref) and a0.kind == 'list':
                return self.list_elem(a0, st, 0, node) + outs
            return [(Unknown('next'), st)] + outs
        if name == 'object':
            return [(ExtV('sentinel:anonymous'), st)]
        if name in ('map', 'filter') and len(args) == 2 and not kwargs:
            # map(f, xs) == [f(x) for x in xs] ; filter(f, xs) == [x for x in xs if f(x)] (f None: truth value) - evaluated eagerly
            import ast as _ast
            fname, xname, vname = '%mapf', '%mapxs', '%mapx'
            st.frame.env[fname], st.frame.env[xname] = args[0], args[1]
            call = _ast.Call(func=_ast.Name(id=fname, ctx=_ast.Load()), args=[_ast.Name(id=vname, ctx=_ast.Load())], keywords=[])
            var = _ast.Name(id=vname, ctx=_ast.Load())
            if name == 'map':
                gen = _ast.comprehension(target=_ast.Name(id=vname, ctx=_ast.Store()), iter=_ast.Name(id=xname, ctx=_ast.Load()), ifs=[], is_async=0)
                comp = _ast.ListComp(elt=call, generators=[gen])
            else:
                cond = var if isinstance(args[0], NoneV) else call
                gen = _ast.comprehension(target=_ast.Name(id=vname, ctx=_ast.Store()), iter=_ast.Name(id=xname, ctx=_ast.Load()), ifs=[cond], is_async=0)
                comp = _ast.ListComp(elt=var, generators=[gen])
            _ast.copy_location(comp, node) if node is not None else None
            _ast.fix_missing_locations(comp)
            outs = self.comprehension(comp, st, 'list')
            for _, s in outs:
                for nme in (fname, xname, vname):
                    s.frame.env.pop(nme, None)
            return outs
        if name in ('map', 'filter'):
            self.note(f'{name}() is modelled as an unknown iterable')
            return [(Unknown(name), st)]
        if name == 'callable':
            return [(Const(True), st)]
        self.note(f'builtin {name} not modelled')
        return [(Unknown('builtin ' + name), st)]

    def sort_compare(self, lref, le: ListE, outs, st, node):
        """sorted() without key calls __lt__ of program objects: follow it (exceptions can escape)."""
        return outs

    def isinstance_(self, v, cls, st):
        names = []
        if isinstance(cls, TupleV):
            rs = [self.isinstance_(v, c, st) for c in cls.items]
            if any(r is True for r in rs):
                return True
            if all(r is False for r in rs):
                return False
            return None
        if isinstance(cls, ClsV):
            if isinstance(v, Ref) and v.kind == 'obj' and not cls.qual.startswith('ext:'):
                return self.prog.classes[cls.qual] in self.prog.classes[st.get(v.sym).cls].mro
            if isinstance(v, ExcV):
                return self.hier.isa(v.cls, cls.qual.split(':')[-1])
            if isinstance(v, (NoneV, Const, StrV, NumV, TupleV)):
                return False
        if isinstance(cls, ExtV):
            n = cls.name.split('.')[-1]
            if n == 'str':
                if isinstance(v, StrV) or (isinstance(v, Const) and isinstance(v.v, str)):
                    return True
                if isinstance(v, (NoneV, Ref, NumV, TupleV)):
                    return False
            if n == 'Element':
                if isinstance(v, Ref):
                    return v.kind == 'elem'
                if isinstance(v, (NoneV, Const, StrV, NumV, TupleV)):
                    return False
        return None
