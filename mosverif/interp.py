"""Path-sensitive abstract interpreter over the repository's Python subset.

Values range over the finite domains of domains.py; branches fork the state,
loops are iterated until the set of abstract states at the loop head stops
growing (states are compared modulo symbol renaming and after discarding
unreferenced heap entries).  Nothing is executed concretely and no solver is
involved: every operation is a transfer function on abstract values.
"""
from __future__ import annotations

import ast
import os
from dataclasses import dataclass, replace
from typing import Any, Dict, List, Optional, Tuple

from .domains import (TallyV, PartV, GenV, LamV, BoolV, BoundV, ClsV, Const, DictE, ElemE, ExcV, ExtV, Frame, FuncV, IdxE, IterV,
                      LenV, ListE, MethV, ModV, NoneV, NumV, ObjE, Ref, S, State, StrV, TupleV, Unknown, Val)
from .exchier import ExcHier
from .front import AnalysisError, ClassInfo, FuncInfo, Program, norm

NEXT, BRK, CONT = 'next', 'brk', 'cont'
UNBOUND = ExtV('%unbound-local')
MAX_DEPTH = 24
MAX_ROUNDS = 12
MAX_STATES = 4000


@dataclass(frozen=True)
class Raise:
    exc: ExcV


@dataclass
class Finding:
    rule: str
    func: str
    construct: str
    detail: str
    file: str
    line: int
    entry: str
    witness: List[str]

    @property
    def key(self):
        return f'{self.rule}|{self.func}|{self.construct}'


from .model import ModelMixin  # noqa: E402  (needs Raise)


class Interp(ModelMixin):
    def __init__(self, prog: Program, *, entry: str = ''):
        self.prog = prog
        self.hier = ExcHier(prog)
        self.findings: Dict[str, Finding] = {}
        self.notes: Dict[str, int] = {}
        self.entry = entry
        self.stats = {'calls': 0, 'forks': 0, 'loops': 0, 'rounds': 0, 'states': 0, 'stmts': 0}
        self.functions_entered: set = set()
        self.sites_seen: Dict[str, set] = {}
        self.depth = 0
        self.lambdas = {}
        self.genexps = {}

    # ------------------------------------------------------------ reporting
    def note(self, msg):
        self.notes[msg] = self.notes.get(msg, 0) + 1

    def site(self, node, st: State):
        f = st.frame.func if st.frames else None
        return (f.file if f else '?', getattr(node, 'lineno', 0), f.short if f else '?', norm(node) if node is not None else '')

    def report(self, rule, st: State, node, construct: str, detail: str = ''):
        file, line, func, _ = self.site(node, st)
        fd = Finding(rule, func, construct, detail, file, line, self.entry, self.witness(st))
        self.findings.setdefault(fd.key, fd)

    def witness(self, st: State, limit=40):
        out = []
        for e in st.events()[-limit:]:
            where = f'{e.site[2]}:{e.site[1]}' if e.site else ''
            out.append(f'{e.kind} {" ".join(str(x) for x in e.data)} @{where}')
        return out

    def seen_site(self, kind, node, st):
        self.sites_seen.setdefault(kind, set()).add(self.site(node, st)[:3] + (norm(node),))

    # ----------------------------------------------------------- exceptions
    def exc(self, cls: str, st: State, node, msg='', implicit=True) -> Raise:
        return Raise(ExcV(cls, msg, self.site(node, st), implicit))

    # -------------------------------------------------------------- dedupe
    def dedupe(self, outs):
        if len(outs) < 2:
            return outs
        seen = {}
        for ctl, st in outs:
            k = (self.ctl_key(ctl, st), st.key())
            if k not in seen:
                seen[k] = (ctl, st)
        res = list(seen.values())
        if len(res) > MAX_STATES:
            raise AnalysisError(f'state explosion ({len(res)} states) in {self.entry}')
        return res

    def ctl_key(self, ctl, st):
        if isinstance(ctl, tuple):
            if ctl[0] == 'ret':
                return ('ret', self.vkey(ctl[1], st))
            if ctl[0] == 'raise':
                return ('raise', ctl[1].cls, ctl[1].site, ctl[1].implicit)
        if isinstance(ctl, Raise):
            return ('raise', ctl.exc.cls, ctl.exc.site, ctl.exc.implicit)
        if isinstance(ctl, Val):
            return ('val', self.vkey(ctl, st))
        return ctl

    def vkey(self, v, st):
        # the value is made part of the state key by binding it to a scratch name
        return repr(self._vk(v, st))

    def _vk(self, v, st):
        if isinstance(v, Ref):
            e = st.heap.get(v.sym)
            if isinstance(e, ElemE):
                return ('elem', e.prov, e.tag, e.attached, self.describe(v, st))
            if isinstance(e, IdxE):
                return ('idx', e.kind, e.delta, e.slack, e.parent is not None and self.describe(Ref('elem', e.parent), st),
                        e.anchor is not None and self.describe(Ref('elem', e.anchor), st))
            if isinstance(e, ListE):
                return ('list', e.kind, e.lo, e.hi, e.tag, tuple(self._vk(x, st) for x in e.items), e.ordered)
            if isinstance(e, ObjE):
                return ('obj', e.cls, tuple((a, self._vk(b, st)) for a, b in e.fields))
            if isinstance(e, DictE):
                return ('dict', len(e.items))
        if isinstance(v, TupleV):
            return tuple(self._vk(x, st) for x in v.items)
        if isinstance(v, (StrV, NoneV)):
            return (type(v).__name__, self.odescr(v.origin, st))
        if isinstance(v, BoundV):
            return ('bound', self._vk(v.recv, st), v.qual)
        if isinstance(v, LamV):
            return ('lambda', v.key, tuple((n, self._vk(x, st)) for n, x in v.captured), tuple(self._vk(x, st) for x in v.defaults))
        if isinstance(v, PartV):
            return ('partial', v.kind, self._vk(v.func, st) if v.func is not None else None, tuple(self._vk(x, st) for x in v.args),
                    tuple((k, self._vk(x, st)) for k, x in v.kwargs))
        return v

    # ================================================================ calls
    def call_function(self, fi: FuncInfo, args: List[Val], kwargs: Dict[str, Val], st: State, node,
                      self_val: Optional[Val] = None) -> List[Tuple[Any, State]]:
        """Inline the callee.  Returns [(value | Raise, state)]."""
        if fi.kind == 'opaque':
            self.note(f'{fi.short} carries an unknown decorator {list(fi.decorators)}: treated as opaque')
            return [(Unknown('opaque ' + fi.short), st)]
        if len(st.frames) >= MAX_DEPTH or any(f.func is fi and f.site == id(node) for f in st.frames):
            raise AnalysisError(f'recursion or call depth exceeded at {fi.qualname}')
        self.stats['calls'] += 1
        self.functions_entered.add(fi.qualname)
        fr = Frame(fi, id(node), len(st.frames))
        fr.callnode = node
        fr.serial0 = st.serial
        bound = self.bind_args(fi, args, kwargs, st, node, self_val)
        if isinstance(bound, Raise):
            return [(bound, st)]
        st = st.copy()
        outs0 = [(bound, st)]
        if isinstance(bound, list):       # defaults evaluation forked (not expected)
            outs0 = bound
        results = []
        is_gen = self._is_generator(fi)
        for env, s in outs0:
            fr2 = fr.copy()
            fr2.env = env
            s.frames.append(fr2)
            if is_gen:
                # generator function: evaluated eagerly, the yielded values collected in order (laziness is not modelled)
                fr2.env['%gen'] = Ref('list', s.new(ListE('lit', 0, 0, items=(), stages=('generator ' + fi.short,))))
            self.on_enter(fi, s, node)
            for ctl, s2 in self.ex_block(fi.node.body, s):
                if is_gen and (ctl == NEXT or (isinstance(ctl, tuple) and ctl[0] == 'ret')):
                    val = s2.frame.env['%gen']
                elif ctl == NEXT:
                    val = NoneV(('noret', fi.qualname))
                elif isinstance(ctl, tuple) and ctl[0] == 'ret':
                    val = ctl[1]
                elif isinstance(ctl, tuple) and ctl[0] == 'raise':
                    val = Raise(ctl[1])
                else:
                    raise AnalysisError(f'break/continue escaped {fi.qualname}')
                s2.frames.pop()
                depth_now = len(s2.frames)
                if any(len(f) == 3 and f[0] in ('nonempty', 'emptystr') and f[2] > depth_now for f in s2.facts):
                    s2.facts = {f for f in s2.facts if not (len(f) == 3 and f[0] in ('nonempty', 'emptystr') and f[2] > depth_now)}
                val, s2 = self.on_return(fi, val, s2, node)
                results.append((val, s2))
        return self.dedupe(results)

    def _is_generator(self, fi):
        g = getattr(fi, '_is_gen', None)
        if g is None:
            g = False
            stack = list(fi.node.body)
            while stack:
                n = stack.pop()
                if isinstance(n, (ast.Yield, ast.YieldFrom)):
                    g = True
                    break
                if isinstance(n, (ast.FunctionDef, ast.AsyncFunctionDef, ast.Lambda, ast.ClassDef)):
                    continue
                stack.extend(ast.iter_child_nodes(n))
            fi._is_gen = g
        return g

    def ev_Yield(self, e, st):
        res = []
        for v, s in (self.ev(e.value, st) if e.value is not None else [(NoneV(), st)]):
            if isinstance(v, Raise):
                res.append((v, s))
                continue
            self._internal_append = True
            try:
                self.list_method(s.frame.env['%gen'], 'append', [v], {}, s, e)
            finally:
                self._internal_append = False
            res.append((NoneV(), s))
        return res

    def ev_YieldFrom(self, e, st):
        res = []
        for v, s in self.ev(e.value, st):
            if isinstance(v, Raise):
                res.append((v, s))
                continue
            self._internal_append = True
            try:
                outs = self.list_method(s.frame.env['%gen'], 'extend', [v], {}, s, e)
            finally:
                self._internal_append = False
            res.extend((NoneV() if not isinstance(r, Raise) else r, s2) for r, s2 in outs)
        return res

    def on_enter(self, fi, st, node):
        pass

    def on_return(self, fi, val, st, node):
        return val, st

    def bind_args(self, fi: FuncInfo, args, kwargs, st: State, node, self_val):
        a = fi.node.args
        env: Dict[str, Val] = {}
        params = [p.arg for p in a.posonlyargs + a.args]
        pos = list(args)
        if self_val is not None:
            pos = [self_val] + pos
        if len(pos) > len(params) and not a.vararg:
            return self.exc('TypeError', st, node, f'too many positional arguments for {fi.short}')
        for name, v in zip(params, pos):
            env[name] = v
        if a.vararg:
            env[a.vararg.arg] = TupleV(tuple(pos[len(params):]))
        kw = dict(kwargs)
        extra = {}
        kwonly = [p.arg for p in a.kwonlyargs]
        for k, v in kw.items():
            if k in params:
                if k in env:
                    return self.exc('TypeError', st, node, f'multiple values for {k}')
                env[k] = v
            elif k in kwonly:
                env[k] = v
            elif a.kwarg:
                extra[k] = v
            else:
                return self.exc('TypeError', st, node, f'unexpected keyword {k} for {fi.short}')
        if a.kwarg:
            env[a.kwarg.arg] = Unknown('kwargs')
        # defaults
        defaults = a.defaults
        firstdef = len(params) - len(defaults)
        for i, name in enumerate(params):
            if name not in env:
                if i >= firstdef:
                    env[name] = self.eval_default(fi, defaults[i - firstdef], st)
                    env['%default:' + name] = Const(True)
                else:
                    return self.exc('TypeError', st, node, f'missing argument {name} for {fi.short}')
        for p, d in zip(a.kwonlyargs, a.kw_defaults):
            if p.arg not in env:
                if d is None:
                    return self.exc('TypeError', st, node, f'missing keyword argument {p.arg} for {fi.short}')
                env[p.arg] = self.eval_default(fi, d, st)
                env['%default:' + p.arg] = Const(True)
        return env

    def eval_default(self, fi: FuncInfo, expr, st: State) -> Val:
        if isinstance(expr, ast.Constant):
            return NoneV() if expr.value is None else Const(expr.value)
        tmp = st.copy()
        tmp.frames.append(Frame(FuncInfo(fi.module.name + ':<module>', '<module>', fi.node, fi.module, None, 'function')))
        outs = self.ev(expr, tmp)
        vals = [v for v, _ in outs if not isinstance(v, Raise)]
        if len(vals) == 1 and isinstance(vals[0], (Const, NoneV, ClsV, FuncV, ExtV, TupleV, StrV)):
            return vals[0]
        if len(vals) == 1 and isinstance(vals[0], Ref):
            # sentinel objects such as ``_UNSET = object()``: identity by global name
            return ExtV('sentinel:' + fi.module.name + ':' + norm(expr))
        return Unknown('default ' + norm(expr))

    # =========================================================== statements
    def ex_block(self, stmts, st: State) -> List[Tuple[Any, State]]:
        cur = [st]
        done = []
        for stmt in stmts:
            nxt = []
            for s in cur:
                for ctl, s2 in self.ex_stmt(stmt, s):
                    if ctl == NEXT:
                        nxt.append((NEXT, s2))
                    else:
                        done.append((ctl, s2))
            nxt = self.dedupe(nxt)
            cur = [s for _, s in nxt]
            if not cur:
                break
        return done + [(NEXT, s) for s in cur]

    def ex_stmt(self, stmt, st: State):
        self.stats['stmts'] += 1
        if self.stats['stmts'] > 1500000:
            raise AnalysisError(f'analysis budget exceeded in {self.entry} (more than 1.5M abstract statement executions)')
        m = getattr(self, 'st_' + type(stmt).__name__, None)
        if m is None:
            raise AnalysisError(f'{self.site(stmt, st)[0]}:{stmt.lineno}: unsupported statement {type(stmt).__name__}')
        return m(stmt, st)

    def _lift(self, outs):
        """[(val|Raise, st)] -> [(ctl, st)] for statement context"""
        res = []
        for v, s in outs:
            if isinstance(v, Raise):
                res.append((('raise', v.exc), s))
            else:
                res.append((NEXT, s))
        return res

    def st_Expr(self, stmt, st):
        if isinstance(stmt.value, ast.Constant):
            return [(NEXT, st)]
        return self._lift(self.ev(stmt.value, st))

    def st_Pass(self, stmt, st):
        return [(NEXT, st)]

    def st_Import(self, stmt, st):
        return [(NEXT, st)]

    st_ImportFrom = st_Import

    def st_Global(self, stmt, st):
        raise AnalysisError(f'global statement at line {stmt.lineno}')

    def st_Break(self, stmt, st):
        return [(BRK, st)]

    def st_Continue(self, stmt, st):
        return [(CONT, st)]

    def st_Return(self, stmt, st):
        if stmt.value is None:
            return [(('ret', NoneV(('noret', st.frame.func.qualname))), st)]
        res = []
        for v, s in self.ev(stmt.value, st):
            if isinstance(v, Raise):
                res.append((('raise', v.exc), s))
            else:
                res.append((('ret', v), s))
        return res

    def st_Assert(self, stmt, st):
        self.on_assert(stmt, st)
        res = []
        for b, s in self.cond(stmt.test, st):
            if isinstance(b, Raise):
                res.append((('raise', b.exc), s))
            elif b:
                res.append((NEXT, s))
            else:
                res.append((('raise', ExcV('AssertionError', norm(stmt.test), self.site(stmt, s), False)), s))
        return res

    def on_assert(self, stmt, st):
        pass

    def st_Raise(self, stmt, st):
        if stmt.exc is None:
            cur = st.frame.cur_exc
            if cur is None:
                return [(('raise', ExcV('RuntimeError', 'no active exception', self.site(stmt, st), True)), st)]
            return [(('raise', cur), st)]
        res = []
        for v, s in self.ev(stmt.exc, st):
            if isinstance(v, Raise):
                res.append((('raise', v.exc), s))
                continue
            if isinstance(v, ClsV):
                name = v.qual.split(':')[-1]
                v = ExcV(name, '', None, False)
            if isinstance(v, ExcV):
                v = replace(v, site=self.site(stmt, s), implicit=False)
                self.on_raise(stmt, v, s)
                res.append((('raise', v), s))
            else:
                self.note(f'raise of non-exception value at {self.site(stmt, s)[:2]}')
                res.append((('raise', ExcV('Exception', '?', self.site(stmt, s), False)), s))
        return res

    def on_raise(self, stmt, exc, st):
        pass

    def st_If(self, stmt, st):
        res = []
        for b, s in self.cond(stmt.test, st):
            if isinstance(b, Raise):
                res.append((('raise', b.exc), s))
            elif b:
                self.on_branch(stmt, True, s)
                res.extend(self.ex_block(stmt.body, s))
            else:
                self.on_branch(stmt, False, s)
                res.extend(self.ex_block(stmt.orelse, s) if stmt.orelse else [(NEXT, s)])
        return self.dedupe(res)

    def on_branch(self, stmt, taken, st):
        pass

    def st_Assign(self, stmt, st):
        res = []
        if isinstance(stmt.value, ast.GeneratorExp) and len(stmt.targets) == 1 and isinstance(stmt.targets[0], ast.Name) \
                and len(stmt.value.generators) == 1 and not stmt.value.generators[0].is_async:
            # name = (<generator expression>): lazy -- it is evaluated where it is consumed (for loop, next(), or any
            # other use, which materialises it)
            self.genexps[id(stmt.value)] = stmt.value
            st.frame.env[stmt.targets[0].id] = GenV(id(stmt.value))
            return [(NEXT, st)]
        for v, s in self.ev(stmt.value, st):
            if isinstance(v, Raise):
                res.append((('raise', v.exc), s))
                continue
            outs = [(NEXT, s)]
            for t in stmt.targets:
                nxt = []
                for ctl, s2 in outs:
                    if ctl != NEXT:
                        nxt.append((ctl, s2))
                    else:
                        nxt.extend(self.assign(t, v, s2, stmt))
                outs = nxt
            res.extend(outs)
        return res

    def st_AnnAssign(self, stmt, st):
        if stmt.value is None:
            return [(NEXT, st)]
        res = []
        for v, s in self.ev(stmt.value, st):
            if isinstance(v, Raise):
                res.append((('raise', v.exc), s))
            else:
                res.extend(self.assign(stmt.target, v, s, stmt))
        return res

    def st_AugAssign(self, stmt, st):
        load = self._as_load(stmt.target)
        binop = ast.BinOp(left=load, op=stmt.op, right=stmt.value)
        ast.copy_location(binop, stmt)
        res = []
        for v, s in self.ev(binop, st):
            if isinstance(v, Raise):
                res.append((('raise', v.exc), s))
            else:
                if isinstance(v, Const) and isinstance(v.v, int) and not isinstance(v.v, bool) and v.v >= 1 and isinstance(stmt.target, ast.Name) \
                        and isinstance(stmt.op, ast.Add) and s.frame.loops and s.mon.get('itlog'):
                    # `n += 1` right after a node went in at a position: if exactly one index of this frame has had n nodes
                    # inserted at its anchor since it was taken (and nothing else happened to it), n is the tally of that index
                    cands = []
                    for val in s.frame.env.values():
                        if isinstance(val, Ref) and val.kind == 'idx' and val.sym in s.heap:
                            ie = s.get(val.sym)
                            if ie.ins == v.v and v.v < 3 and ((ie.kind == 'fresh' and ie.delta == -v.v) or (ie.kind == 'end' and ie.slack == -v.v)) and val.sym not in cands:
                                cands.append(val.sym)
                    if len(cands) == 1:
                        v = TallyV(('tally', stmt.target.id), cands[0], 0)
                if isinstance(v, Const) and isinstance(v.v, int) and not isinstance(v.v, bool) and abs(v.v) > 2 and isinstance(stmt.target, ast.Name) \
                        and s.frame.loops and s.mon.get('itlog'):
                    v = NumV(('counter', stmt.target.id))        # a tally kept in a loop: "some number greater than 2" (widening)
                res.extend(self.assign(stmt.target, v, s, stmt))
        return res

    def _as_load(self, t):
        if isinstance(t, ast.Name):
            n = ast.Name(id=t.id, ctx=ast.Load())
        elif isinstance(t, ast.Attribute):
            n = ast.Attribute(value=t.value, attr=t.attr, ctx=ast.Load())
        elif isinstance(t, ast.Subscript):
            n = ast.Subscript(value=t.value, slice=t.slice, ctx=ast.Load())
        else:
            raise AnalysisError('unsupported augmented assignment target')
        return ast.copy_location(n, t)

    def st_Delete(self, stmt, st):
        outs = [(NEXT, st)]
        for t in stmt.targets:
            nxt = []
            for ctl, s in outs:
                if ctl != NEXT:
                    nxt.append((ctl, s))
                    continue
                if isinstance(t, ast.Name):
                    s.frame.env.pop(t.id, None)
                    nxt.append((NEXT, s))
                elif isinstance(t, ast.Subscript):
                    for c, s2 in self.ev(t.value, s):
                        if isinstance(c, Raise):
                            nxt.append((('raise', c.exc), s2))
                            continue
                        for i, s3 in self.ev(t.slice, s2):
                            if isinstance(i, Raise):
                                nxt.append((('raise', i.exc), s3))
                            else:
                                nxt.extend(self._lift(self.model_delitem(c, i, s3, stmt)))
                else:
                    raise AnalysisError('unsupported del target')
            outs = nxt
        return outs

    def assign(self, target, val: Val, st: State, node) -> List[Tuple[Any, State]]:
        if isinstance(target, ast.Name):
            st.frame.env[target.id] = val
            return [(NEXT, st)]
        if isinstance(target, (ast.Tuple, ast.List)):
            return self.unpack(target, val, st, node)
        if isinstance(target, ast.Attribute):
            res = []
            for o, s in self.ev(target.value, st):
                if isinstance(o, Raise):
                    res.append((('raise', o.exc), s))
                else:
                    res.extend(self._lift(self.setattr_(o, target.attr, val, s, node)))
            return res
        if isinstance(target, ast.Subscript) and isinstance(target.slice, ast.Slice):
            res = []
            for c, s in self.ev(target.value, st):
                if isinstance(c, Raise):
                    res.append((('raise', c.exc), s))
                    continue
                names = [n for n in ('lower', 'upper', 'step') if getattr(target.slice, n) is not None]
                for bv, s2 in self.ev_all([getattr(target.slice, n) for n in names], s):
                    if isinstance(bv, Raise):
                        res.append((('raise', bv.exc), s2))
                    else:
                        res.extend(self._lift(self.model_slice_store(c, target.slice, dict(zip(names, bv)), val, s2, node)))
            return res
        if isinstance(target, ast.Subscript):
            res = []
            for c, s in self.ev(target.value, st):
                if isinstance(c, Raise):
                    res.append((('raise', c.exc), s))
                    continue
                for i, s2 in self.ev(target.slice, s):
                    if isinstance(i, Raise):
                        res.append((('raise', i.exc), s2))
                    else:
                        res.extend(self._lift(self.model_setitem(c, i, val, s2, node)))
            return res
        if isinstance(target, ast.Starred):
            raise AnalysisError('starred assignment target')
        raise AnalysisError(f'unsupported assignment target {type(target).__name__}')

    def unpack_starred(self, target, val, st, node):
        """a, *rest = xs   /   *init, last = xs   (one starred name, list operand)"""
        elts = target.elts
        star = [i for i, e in enumerate(elts) if isinstance(e, ast.Starred)]
        exact = None
        if isinstance(val, TupleV):
            exact = val.items
        elif isinstance(val, Ref) and val.kind == 'list' and st.get(val.sym).kind == 'lit':
            exact = st.get(val.sym).items
        if len(star) == 1 and exact is not None:
            k = star[0]
            n_after = len(elts) - k - 1
            if len(exact) < k + n_after:
                return [(('raise', self.exc('ValueError', st, node, f'not enough values to unpack (expected at least {k + n_after})').exc), st)]
            mid = exact[k:len(exact) - n_after]
            outs = [(NEXT, st)]
            plan = [(elts[j], exact[j]) for j in range(k)] + [(elts[k + 1 + j], exact[len(exact) - n_after + j]) for j in range(n_after)]
            for t, v in plan:
                nxt = []
                for ctl, s1 in outs:
                    nxt.extend([(ctl, s1)] if ctl != NEXT else self.assign(t, v, s1, node))
                outs = nxt
            res = []
            for ctl, s1 in outs:
                if ctl != NEXT:
                    res.append((ctl, s1))
                else:
                    lst = Ref('list', s1.new(ListE('lit', len(mid), len(mid), items=tuple(mid))))
                    res.extend(self.assign(elts[k].value, lst, s1, node))
            return res
        if len(star) != 1 or not (isinstance(val, Ref) and val.kind == 'list'):
            raise AnalysisError('unsupported starred unpacking')
        k = star[0]
        before, after = elts[:k], elts[k + 1:]
        need = len(before) + len(after)
        res = []
        for ok, s in self.len_cmp(val.sym, '>=', need, st):
            if not ok:
                res.append((('raise', self.exc('ValueError', s, node, f'not enough values to unpack (expected at least {need})').exc), s))
                continue
            outs = [(NEXT, s)]
            for i, t in enumerate(before):
                nxt = []
                for ctl, s1 in outs:
                    if ctl != NEXT:
                        nxt.append((ctl, s1))
                        continue
                    for v, s2 in self.list_nth(val, i, s1, node):
                        nxt.extend(self.assign(t, v, s2, node))
                outs = nxt
            for j, t in enumerate(after):
                nxt = []
                for ctl, s1 in outs:
                    if ctl != NEXT:
                        nxt.append((ctl, s1))
                        continue
                    for v, s2 in self.list_nth(val, -(len(after) - j), s1, node):
                        nxt.extend(self.assign(t, v, s2, node))
                outs = nxt
            spec = (len(before) or None, -len(after) if after else None, None)
            nxt = []
            for ctl, s1 in outs:
                if ctl != NEXT:
                    nxt.append((ctl, s1))
                    continue
                for v, s2 in self.model_slice(val, spec, s1, node):
                    nxt.extend(self.assign(elts[k].value, v, s2, node))
            res.extend(nxt)
        return res

    def unpack(self, target, val, st, node):
        n = len(target.elts)
        if any(isinstance(e, ast.Starred) for e in target.elts):
            return self.unpack_starred(target, val, st, node)
        res = []
        for items, s in self.as_fixed(val, n, st, node):
            if isinstance(items, Raise):
                res.append((('raise', items.exc), s))
                continue
            outs = [(NEXT, s)]
            for t, v in zip(target.elts, items):
                nxt = []
                for ctl, s2 in outs:
                    if ctl != NEXT:
                        nxt.append((ctl, s2))
                    else:
                        nxt.extend(self.assign(t, v, s2, node))
                outs = nxt
            res.extend(outs)
        return res

    # ------------------------------------------------------------- try/with
    def st_Try(self, stmt, st):
        outs = self.ex_block(stmt.body, st)
        res = []
        for ctl, s in outs:
            if isinstance(ctl, tuple) and ctl[0] == 'raise':
                res.extend(self._handle(stmt, ctl[1], s))
            elif ctl == NEXT and stmt.orelse:
                res.extend(self.ex_block(stmt.orelse, s))
            else:
                res.append((ctl, s))
        if stmt.finalbody:
            fin = []
            for ctl, s in res:
                for c2, s2 in self.ex_block(stmt.finalbody, s):
                    fin.append((ctl if c2 == NEXT else c2, s2))
            res = fin
        return self.dedupe(res)

    def _handle(self, stmt, exc: ExcV, st: State):
        for h in stmt.handlers:
            names = self.handler_names(h, st)
            if names is None or any(self.hier.isa(exc.cls, n) for n in names):
                st = st.copy()
                saved = st.frame.cur_exc
                st.frame.cur_exc = exc
                if h.name:
                    st.frame.env[h.name] = exc
                self.on_caught(stmt, h, exc, st)
                res = []
                for ctl, s in self.ex_block(h.body, st):
                    s.frame.cur_exc = saved
                    if h.name and h.name in s.frame.env:
                        s.frame.env[h.name] = UNBOUND          # `except ... as e`: e is deleted when the clause is left
                    res.append((ctl, s))
                return res
        return [(('raise', exc), st)]

    def on_caught(self, stmt, handler, exc, st):
        pass

    def handler_names(self, h, st):
        if h.type is None:
            return None
        elts = h.type.elts if isinstance(h.type, ast.Tuple) else [h.type]
        names = []
        for e in elts:
            if isinstance(e, ast.Name) and e.id in st.frame.env:
                # `except errors:` where errors is a local / parameter holding a class or a tuple of classes
                v = st.frame.env[e.id]
                vals = v.items if isinstance(v, TupleV) else (v,)
                for x in vals:
                    if isinstance(x, ClsV):
                        names.append(x.qual.split(':')[-1])
                    else:
                        raise AnalysisError(f'except clause {norm(e)} names a value that is not a known exception class')
            elif isinstance(e, ast.Attribute):
                names.append(e.attr)
            elif isinstance(e, ast.Name):
                names.append(e.id)
            else:
                raise AnalysisError('unsupported except clause ' + norm(e))
        return names

    def st_With(self, stmt, st):
        outs = [(NEXT, st)]
        suppressed = []
        for item in stmt.items:
            nxt = []
            for ctl, s in outs:
                if ctl != NEXT:
                    nxt.append((ctl, s))
                    continue
                for v, s2 in self.ev(item.context_expr, s):
                    if isinstance(v, ExtV) and v.name.startswith('suppress:'):
                        suppressed.extend(x for x in v.name[len('suppress:'):].split(',') if x)
                    if isinstance(v, Raise):
                        nxt.append((('raise', v.exc), s2))
                    elif item.optional_vars is not None:
                        nxt.extend(self.assign(item.optional_vars, v, s2, stmt))
                    else:
                        nxt.append((NEXT, s2))
            outs = nxt
        res = []
        for ctl, s in outs:
            if ctl != NEXT:
                res.append((ctl, s))
            else:
                for ctl2, s2 in self.ex_block(stmt.body, s):
                    if suppressed and isinstance(ctl2, tuple) and ctl2[0] == 'raise' and any(self.hier.isa(ctl2[1].cls, c) for c in suppressed):
                        res.append((NEXT, s2))          # contextlib.suppress: the with-block is left normally
                    else:
                        res.append((ctl2, s2))
        return res

    def st_FunctionDef(self, stmt, st):
        """A nested helper function: a closure over a snapshot of the enclosing variables (like a lambda with statements).
        Generators, decorators, nonlocal/global and *args/**kwargs are not supported."""
        a = stmt.args
        if stmt.decorator_list or a.vararg or a.kwarg or a.kwonlyargs or a.posonlyargs:
            raise AnalysisError(f'nested function definition {stmt.name} at line {stmt.lineno} uses decorators or variadic parameters')
        for n in ast.walk(stmt):
            if isinstance(n, (ast.Yield, ast.YieldFrom, ast.Nonlocal, ast.Global)):
                raise AnalysisError(f'nested function definition {stmt.name} at line {stmt.lineno} is a generator or rebinds outer names')
        params = {x.arg for x in a.args}
        free = {n.id for b in stmt.body for n in ast.walk(b) if isinstance(n, ast.Name)} - params
        self.lambdas[id(stmt)] = (stmt, st.frame.func)
        res = []
        for dvals, s in self._eval_defaults(a.defaults, st):
            if isinstance(dvals, Raise):
                res.append((('raise', dvals.exc), s))
                continue
            captured = tuple(sorted(((n, s.frame.env[n]) for n in free if n in s.frame.env and n != stmt.name), key=lambda kv: kv[0]))
            s.frame.env[stmt.name] = LamV(id(stmt), captured, dvals, len(s.frames))
            res.append((NEXT, s))
        return res

    def _eval_defaults(self, defaults, st):
        """parameter defaults are evaluated once, where the function object is created"""
        outs = [((), st)]
        for d in defaults:
            nxt = []
            for acc, s in outs:
                if isinstance(acc, Raise):
                    nxt.append((acc, s))
                    continue
                for v, s2 in self.ev(d, s):
                    nxt.append((v if isinstance(v, Raise) else acc + (v,), s2))
            outs = nxt
        return outs

    def st_ClassDef(self, stmt, st):
        raise AnalysisError(f'nested class definition {stmt.name} at line {stmt.lineno}')

    # ---------------------------------------------------------------- loops
    def _ev_iterable(self, e, st):
        """Evaluate the iterable of a for loop / next(): a name bound to a lazy generator is handed over as such."""
        if isinstance(e, ast.Name) and isinstance(st.frame.env.get(e.id), GenV):
            return [(st.frame.env[e.id], st)]
        return self.ev(e, st)

    def st_For(self, stmt, st):
        res = []
        for it, s in self._ev_iterable(stmt.iter, st):
            if isinstance(it, Raise):
                res.append((('raise', it.exc), s))
                continue

            def body(elem, s2, stmt=stmt):
                outs = []
                for ctl, s3 in self.assign(stmt.target, elem, s2, stmt):
                    if ctl != NEXT:
                        outs.append((ctl, s3))
                    else:
                        outs.extend(self.ex_block(stmt.body, s3))
                return outs
            exits, escapes = self.run_loop(it, s, body, stmt)
            for kind, s2 in exits:
                if kind == 'exhausted' and stmt.orelse:
                    res.extend(self.ex_block(stmt.orelse, s2))
                else:
                    res.append((NEXT, s2))
            res.extend(escapes)
        return self.dedupe(res)

    def st_While(self, stmt, st):
        # while loops: iterate the condition/body to a fix-point
        self.stats['loops'] += 1
        res = []
        seen = set()
        work = [st]
        rounds = 0
        while work:
            rounds += 1
            if rounds > MAX_ROUNDS:
                raise AnalysisError(f'while loop at line {stmt.lineno} did not stabilise')
            nxt = []
            for s in work:
                for b, s2 in self.cond(stmt.test, s):
                    if isinstance(b, Raise):
                        res.append((('raise', b.exc), s2))
                    elif not b:
                        res.extend(self.ex_block(stmt.orelse, s2) if stmt.orelse else [(NEXT, s2)])
                    else:
                        for ctl, s3 in self.ex_block(stmt.body, s2):
                            if ctl in (NEXT, CONT):
                                self.gc(s3)
                                k = s3.key()
                                if k not in seen:
                                    seen.add(k)
                                    nxt.append(s3)
                            elif ctl == BRK:
                                res.append((NEXT, s3))
                            else:
                                res.append((ctl, s3))
            work = nxt
        return self.dedupe(res)

    def _run_genv(self, gv, st: State, body, node):
        """for x in <lazy generator>: the generator's own loop with the consumer's body run at every yield"""
        gen = self.genexps[gv.key]
        g = gen.generators[0]
        names = [n.id for n in ast.walk(g.target) if isinstance(n, ast.Name)]
        saved = {n: st.frame.env[n] for n in names if n in st.frame.env}
        exits, escapes = [], []
        for it, s in self.ev(g.iter, st):
            if isinstance(it, Raise):
                escapes.append((('raise', it.exc), s))
                continue

            def inner(elem, s2):
                outs = []
                for ctl, s3 in self.assign(g.target, elem, s2, gen):
                    if ctl != NEXT:
                        outs.append((ctl, s3))
                        continue
                    conds = [(True, s3)]
                    for c in list(g.ifs):
                        nxt = []
                        for ok, s4 in conds:
                            nxt.extend(self.cond(c, s4) if ok is True else [(ok, s4)])
                        conds = nxt
                    for ok, s4 in conds:
                        if isinstance(ok, Raise):
                            outs.append((('raise', ok.exc), s4))
                        elif not ok:
                            outs.append((NEXT, s4))
                        else:
                            for v, s5 in self.ev(gen.elt, s4):
                                if isinstance(v, Raise):
                                    outs.append((('raise', v.exc), s5))
                                else:
                                    outs.extend(body(v, s5))
                return outs
            ex, esc = self.run_loop(it, s, inner, node)
            exits.extend(ex)
            escapes.extend(esc)
        for _, s in exits + escapes:
            for n in names:
                s.frame.env.pop(n, None)
            s.frame.env.update(saved)
        return exits, escapes

    def run_loop(self, itval: Val, st: State, body, node, joiner=None):
        """Iterate *itval*.  body(elem, state) -> [(ctl, state)].
        Returns (exits [(kind, state)], escapes [(ctl, state)])."""
        if isinstance(itval, GenV):
            return self._run_genv(itval, st, body, node)
        if isinstance(itval, Ref) and itval.kind == 'list':
            le0 = st.get(itval.sym)
            if le0.kind == 'chain' and isinstance(le0.spec, tuple) and le0.spec and all(isinstance(p, tuple) and p and p[0] in ('fixed', 'list') for p in le0.spec) \
                    and all(p[0] == 'fixed' or p[1] in st.heap for p in le0.spec):
                # known elements, then the elements of another list, ...: the segments are iterated one after the other
                cur, exits, escapes = [st], [], []
                pin = f'%chain{itval.sym}'
                st.frame.env[pin] = itval                 # the display itself stays reachable while its segments are iterated
                for part in le0.spec:
                    nxt = []
                    for s in cur:
                        seg = TupleV(tuple(part[1])) if part[0] == 'fixed' else Ref('list', part[1])
                        ex, esc = self.run_loop(seg, s, body, node, joiner=joiner)
                        escapes.extend(esc)
                        for kind, s2 in ex:
                            (exits if kind == 'break' else nxt).append((kind, s2))
                    cur = [s for _, s in self.dedupe(nxt)]
                exits.extend(('exhausted', s) for s in cur)
                for _, s in exits + escapes:
                    s.frame.env.pop(pin, None) if s.frames else None
                return exits, escapes
        self.stats['loops'] += 1
        spec = self.iter_spec(itval, st, node)
        if isinstance(spec, Raise):
            return [], [(('raise', spec.exc), st)]
        exits, escapes = [], []
        entry_serial = st.serial
        st.frame.loops += 1
        depth = (len(st.frames), st.frame.loops)
        hidden = f'%it{st.frame.loops}'
        st.frame.env[hidden] = itval
        if spec.exact is not None:
            cur = [st]
            for k, item in enumerate(spec.exact):
                nxt = []
                for s in cur:
                    self.loop_iter_start(s, depth, spec, k)
                    for ctl, s2 in body(item, s):
                        if ctl in (NEXT, CONT):
                            nxt.append((NEXT, s2))
                        elif ctl == BRK:
                            exits.append(('break', s2))
                        else:
                            escapes.append((ctl, s2))
                cur = [s for _, s in self.dedupe(nxt)]
            exits.extend(('exhausted', s) for s in cur)
        else:
            seen = set()
            work = [(0, st)]
            rounds = 0
            while work:
                rounds += 1
                self.stats['rounds'] += 1
                if rounds > MAX_ROUNDS:
                    if os.environ.get('VERIF_DEBUG_LOOP'):
                        import difflib
                        import pprint
                        ks = [pprint.pformat(s.key(), width=160).splitlines() for _, s in work[:1]] + [prev_dbg]
                        print('LOOP-DEBUG', self.site(node, st)[:3], len(work), 'states; diff of one state against the previous round:')
                        print('\n'.join(list(difflib.unified_diff(ks[1], ks[0], lineterm='', n=1))[:80]))
                    raise AnalysisError(f'loop at {self.site(node, st)[:2]} did not stabilise after {MAX_ROUNDS} rounds')
                if os.environ.get('VERIF_DEBUG_LOOP') and rounds == MAX_ROUNDS and work:
                    import pprint
                    prev_dbg = pprint.pformat(work[0][1].key(), width=160).splitlines()
                nxt = []
                for count, s in work:
                    if count >= spec.lo:
                        s_exit = s.copy() if (spec.hi is None or count < spec.hi) else s
                        self.loop_exit(s_exit, depth, spec, count)
                        if not s_exit.mon.pop('infeasible', None):
                            exits.append(('exhausted', s_exit))
                    if spec.hi is not None and count >= spec.hi:
                        continue
                    self.loop_iter_start(s, depth, spec, count)
                    for elem, s1 in spec.make(s, count):
                        if isinstance(elem, Raise):
                            escapes.append((('raise', elem.exc), s1))
                            continue
                        for ctl, s2 in body(elem, s1):
                            if ctl in (NEXT, CONT):
                                self.gc(s2)
                                c2 = min(count + 1, 2)
                                k = (c2, s2.key())
                                if k not in seen:
                                    seen.add(k)
                                    nxt.append((c2, s2))
                            elif ctl == BRK:
                                exits.append(('break', s2))
                            else:
                                escapes.append((ctl, s2))
                if joiner is not None and len(nxt) > 1:
                    nxt = joiner(nxt)
                if len(nxt) > 1:
                    nxt = self.join_accum(nxt, entry_serial)
                if len(nxt) > 300:
                    raise AnalysisError(f'loop at {self.site(node, st)[:2]}: {len(nxt)} distinct abstract states at the loop head (state explosion)')
                work = nxt
        for _, s in exits:
            s.frame.loops -= 0   # loop ids are never reused inside one frame activation
        out_exits = []
        seen_e = {}
        for _, s in escapes:
            s.frame.env.pop(hidden, None)
            self.loop_done(s, depth)
        if joiner is not None and len(exits) > 1:
            exits = joiner(exits)
        if spec.exact is None and len(exits) > 1:
            exits = self.join_accum(exits, entry_serial)
        for kind, s in exits:
            s.frame.env.pop(hidden, None)
            self.loop_done(s, depth)
            k = (kind, s.key())
            if k not in seen_e:
                seen_e[k] = (kind, s)
        out_exits = list(seen_e.values())
        return out_exits, self.dedupe(escapes)

    def join_accum(self, states, entry_serial):
        """Join loop states that differ only in the contents of lists that existed before the loop and are filled
        by it (``xs.append(...)``): the template sets are united (an over-approximation that keeps the number of
        loop-head states linear instead of a powerset of template subsets)."""
        groups = {}
        out = []
        for tagk, s in states:
            accs = [sym for sym, e in s.heap.items() if isinstance(e, ListE) and e.kind == 'accum' and sym <= entry_serial]
            if not accs:
                out.append((tagk, s))
                continue
            k = (tagk, s.key(accum_before=entry_serial))
            if k not in groups:
                groups[k] = (tagk, s)
                out.append((tagk, s))
                continue
            base = groups[k][1]
            for sym in accs:
                a, b = base.heap.get(sym), s.heap.get(sym)
                if not isinstance(a, ListE) or not isinstance(b, ListE):
                    continue
                items = list(a.items)
                owned = list(a.owned) if len(a.owned) == len(a.items) else [()] * len(a.items)
                have = {repr(self._coarse(x, base)) for x in items}
                for t in b.items:
                    if repr(self._coarse(t, s)) not in have:
                        t2 = self.import_value(t, s, base, entry_serial)
                        items.append(t2)
                        owned.append(self.reachable(t2, base, entry_serial))
                        have.add(repr(self._coarse(t2, base)))
                base.heap[sym] = replace(a, items=tuple(items), owned=tuple(owned), lo=min(a.lo, b.lo),
                                         hi=None if (a.hi is None or b.hi is None) else max(a.hi, b.hi),
                                         distinct=a.distinct and b.distinct)
        return out

    def _coarse(self, x, st):
        k = self._vk(x, st)
        if isinstance(k, tuple) and k and k[0] == 'elem':
            return k[:3] + k[4:]
        return k

    def gc(self, st: State):
        """Drop heap entries that the program can no longer reach."""
        reach = set()

        def visit_val(v):
            if isinstance(v, Ref):
                visit(v.sym)
            elif isinstance(v, TupleV):
                for x in v.items:
                    visit_val(x)
            elif isinstance(v, (BoundV, MethV)):
                visit_val(v.recv)
            elif isinstance(v, LamV):
                for _, x in v.captured:
                    visit_val(x)
                for x in v.defaults:
                    visit_val(x)
            elif isinstance(v, TallyV):
                visit(v.base)
            elif isinstance(v, PartV):
                if v.func is not None:
                    visit_val(v.func)
                for x in v.args:
                    visit_val(x)
                for _, x in v.kwargs:
                    visit_val(x)
            elif isinstance(v, IterV):
                visit_val(v.src)
                visit_val(v.start)
            elif isinstance(v, (StrV, NoneV)):
                visit_o(v.origin)
            elif isinstance(v, LenV):
                visit(v.sym)

        def visit_o(o):
            if isinstance(o, tuple):
                if len(o) == 2 and o[0] == '$':
                    visit(o[1])
                else:
                    for x in o:
                        visit_o(x)

        def visit(sym):
            if sym in reach or sym not in st.heap:
                return
            reach.add(sym)
            e = st.heap[sym]
            if isinstance(e, ElemE):
                if e.parent:
                    visit(e.parent)
                if e.copy_of:
                    visit(e.copy_of)
                visit_o(e.origin)
            elif isinstance(e, IdxE):
                if e.parent:
                    visit(e.parent)
                if e.anchor:
                    visit(e.anchor)
            elif isinstance(e, ListE):
                if e.parent:
                    visit(e.parent)
                if e.src:
                    visit(e.src)
                if e.kind == 'count' and e.spec:
                    for x in e.spec:
                        visit_val(x)
                for x in e.items:
                    visit_val(x)
                for grp in e.owned:
                    for x in grp:
                        visit(x)
            elif isinstance(e, ObjE):
                for _, v in e.fields:
                    visit_val(v)
            elif isinstance(e, DictE):
                for a, b in e.items:
                    visit_val(a)
                    visit_val(b)

        for f in st.frames:
            for v in f.env.values():
                visit_val(v)
            if f.cur_exc is not None:
                visit_val(f.cur_exc)
        for sym in self.mon_roots(st):
            visit(sym)
        la = st.mon.get('lastapp')
        if la:
            la = {k: v for k, v in la.items() if k in reach}        # the value last appended to a live list
            st.mon['lastapp'] = la
            for v in la.values():
                visit_val(v)
        memo = st.mon.get('propmemo')
        if memo:
            memo = {k: v for k, v in memo.items() if k[0] in reach}
            st.mon['propmemo'] = memo
            for v in memo.values():
                visit_val(v)
        dead = [s for s in st.heap if s not in reach]
        if dead:
            self.on_gc(st, dead)
            for s in dead:
                del st.heap[s]
            deadset = set(dead)
            st.facts = {f for f in st.facts if not any(isinstance(x, int) and x in deadset for x in f[1:])}
            st.first = {k: v for k, v in st.first.items() if k[0] not in deadset and (v == 'ABSENT' or v not in deadset)}
            st.lookups = {k: v for k, v in st.lookups.items() if k[0] not in deadset and v not in deadset}
            for name in ('textsyms', 'attrib_of', 'descend_of', 'sym:textnull', 'sym:fromlist'):
                m = st.mon.get(name)
                if m:
                    st.mon[name] = {k: v for k, v in m.items() if k not in deadset}
            m = st.mon.get('nth')
            if m:
                st.mon['nth'] = {k: v for k, v in m.items() if k[1] not in deadset and v not in deadset}

    def on_gc(self, st, dead):
        pass

    # ========================================================== expressions
    def ev(self, e, st: State) -> List[Tuple[Any, State]]:
        m = getattr(self, 'ev_' + type(e).__name__, None)
        if m is None:
            raise AnalysisError(f'unsupported expression {type(e).__name__} at line {getattr(e, "lineno", "?")}')
        return m(e, st)

    def ev_all(self, exprs, st):
        """Evaluate expressions left to right -> [(tuple(vals) | Raise, st)]"""
        outs = [((), st)]
        for e in exprs:
            nxt = []
            for vals, s in outs:
                if isinstance(vals, Raise):
                    nxt.append((vals, s))
                    continue
                for v, s2 in self.ev(e, s):
                    if isinstance(v, Raise):
                        nxt.append((v, s2))
                    else:
                        nxt.append((vals + (v,), s2))
            outs = nxt
        return outs

    def ev_Constant(self, e, st):
        if e.value is None:
            return [(NoneV(), st)]
        return [(Const(e.value), st)]

    def ev_Name(self, e, st):
        env = st.frame.env
        if e.id in env:
            v = env[e.id]
            if v is UNBOUND or v == UNBOUND:
                return [(self.exc('UnboundLocalError', st, e, f"cannot access local variable '{e.id}' where it is not associated with a value "
                                  f"(deleted at the end of its except clause / by del)"), st)]
            if isinstance(v, GenV) and not getattr(self, '_want_gen', False):
                # used as an ordinary value: run it now (eagerly) and remember the result, a generator is single-use anyway
                outs = []
                for lv, s in self.comprehension(self.genexps[v.key], st, 'gen'):
                    if not isinstance(lv, Raise):
                        s.frame.env[e.id] = lv
                    outs.append((lv, s))
                return outs
            return [(v, st)]
        return [(self.global_name(e.id, st, e), st)]

    def global_name(self, name, st, node):
        m = st.frame.func.module
        r = self.prog.resolve_global(m, name)
        if r is None:
            if name in self.BUILTINS:
                return ExtV('builtins.' + name)
            if self.hier.known(name):
                return ClsV('ext:' + name)
            if name in ('True', 'False'):
                return Const(name == 'True')
            self.note(f'unresolved name {name}')
            return Unknown('name ' + name)
        return self.global_value(r, st)

    def global_value(self, r, st):
        if isinstance(r, ClassInfo):
            return ClsV(r.qualname)
        if isinstance(r, FuncInfo):
            return FuncV(r.qualname)
        if r[0] == 'module':
            return ModV(r[1])
        if r[0] == 'external':
            return self.ext_value(r[1])
        if r[0] == 'global':
            _, mod, expr, gname = r
            return self.module_global(mod, expr, st, gname)
        return Unknown('global')

    def module_global(self, mod, expr, st, gname=None):
        if isinstance(expr, ast.Constant):
            return NoneV() if expr.value is None else Const(expr.value)
        if isinstance(expr, ast.Call):
            tgt = self.prog.resolve_name_expr(mod, expr.func)
            if isinstance(tgt, ClassInfo) and any(b.split('.')[-1] == 'NamedTuple' for b in tgt.ext_bases) and not any(isinstance(a, ast.Starred) for a in expr.args) \
                    and all(k.arg for k in expr.keywords):
                # a module-level constant record, e.g. _NOT_FOUND = FoundChild(None, None)
                args = [self.module_global(mod, a, st) for a in expr.args]
                kw = {k.arg: self.module_global(mod, k.value, st) for k in expr.keywords}
                if all(isinstance(x, (Const, NoneV, TupleV, ClsV, FuncV)) for x in list(args) + list(kw.values())):
                    outs = self.instantiate(ClsV(tgt.qualname), args, kw, st, expr)
                    if len(outs) == 1 and isinstance(outs[0][0], TupleV):
                        return outs[0][0]
            if isinstance(tgt, ClassInfo) and not expr.args and not expr.keywords:
                return ExtV('singleton:' + tgt.qualname)
            if isinstance(tgt, tuple) and tgt[0] == 'external' and tgt[1] == 'functools.partial' and expr.args:
                # a module-level partial: the wrapped callable and its pre-bound arguments (a `{}` / `[]` argument is one shared object)
                def mg(x):
                    if isinstance(x, ast.Dict) and not x.keys:
                        return ExtV('shared-module-level:dict')
                    if isinstance(x, ast.List) and not x.elts:
                        return ExtV('shared-module-level:list')
                    r = self.prog.resolve_name_expr(mod, x) if isinstance(x, (ast.Name, ast.Attribute)) else None
                    if isinstance(r, tuple) and r and r[0] == 'external':
                        return self.ext_value(r[1])
                    return self.module_global(mod, x, st)
                return PartV('partial', mg(expr.args[0]), tuple(mg(a) for a in expr.args[1:]),
                             tuple(sorted((k.arg, mg(k.value)) for k in expr.keywords if k.arg)))
            if isinstance(tgt, tuple) and tgt[0] == 'external':
                return ExtV('result:' + tgt[1])
            if isinstance(expr.func, ast.Name) and expr.func.id == 'object':
                return ExtV('sentinel:' + mod.name + ':' + (gname or norm(expr)))
        if isinstance(expr, (ast.Tuple, ast.List, ast.Set)):
            items = [self.module_global(mod, x, st) for x in expr.elts]
            if all(isinstance(x, (Const, NoneV, TupleV, ClsV, FuncV)) for x in items):
                return TupleV(tuple(items))
        if isinstance(expr, ast.Dict) and all(k is not None for k in expr.keys):
            # a module-level table (e.g. tag -> class): evaluated to an exact mapping when every key and value is a literal / class / function
            keys = [self.module_global(mod, k, st) for k in expr.keys]
            vals = [self.module_global(mod, v, st) for v in expr.values]
            if all(isinstance(x, (Const, TupleV, ClsV)) for x in keys) and all(isinstance(x, (Const, NoneV, TupleV, ClsV, FuncV)) for x in vals):
                return Ref('dict', st.new(DictE(tuple(zip(keys, vals)), True)))
        if isinstance(expr, (ast.Name, ast.Attribute)):
            tgt = self.prog.resolve_name_expr(mod, expr)
            if isinstance(tgt, ClassInfo):
                return ClsV(tgt.qualname)
            if isinstance(tgt, FuncInfo):
                return FuncV(tgt.qualname)
        return Unknown('module global ' + norm(expr))

    def ext_value(self, dotted):
        last = dotted.split('.')[-1]
        if self.hier.known(last) and (dotted.startswith('builtins') or last in ('ParseError', 'ClientError')):
            return ClsV('ext:' + last)
        return ExtV(dotted)

    def ev_Attribute(self, e, st):
        res = []
        for o, s in self.ev(e.value, st):
            if isinstance(o, Raise):
                res.append((o, s))
            else:
                res.extend(self.getattr_(o, e.attr, s, e))
        return res

    def _display(self, e, st):
        """Evaluate the elements of a tuple/list display; a starred element of fixed length is spliced in,
        otherwise the display becomes a list whose templates are the fixed elements plus those of the starred lists."""
        if not any(isinstance(x, ast.Starred) for x in e.elts):
            return [((v, None) if not isinstance(v, Raise) else (v, None), s) for v, s in self.ev_all(e.elts, st)]
        outs = [(((), []), st)]
        for x in e.elts:
            nxt = []
            for (acc, stars), s in outs:
                for v, s2 in self.ev(x.value if isinstance(x, ast.Starred) else x, s):
                    if isinstance(v, Raise):
                        nxt.append(((v, None), s2))
                    elif isinstance(x, ast.Starred):
                        if isinstance(v, TupleV):
                            nxt.append(((acc + v.items, stars), s2))
                        else:
                            nxt.append(((acc, stars + [v]), s2))
                    else:
                        nxt.append(((acc + (v,), stars), s2))
            outs = [o for o in nxt if not isinstance(o[0][0], Raise)] + [o for o in nxt if isinstance(o[0][0], Raise)]
            if any(isinstance(o[0][0], Raise) for o in outs):
                return [((o[0][0], None), o[1]) for o in outs if isinstance(o[0][0], Raise)] + \
                       [o for o in outs if not isinstance(o[0][0], Raise)]
        return outs

    def ev_Tuple(self, e, st):
        res = []
        for (v, stars), s in self._display(e, st):
            if isinstance(v, Raise):
                res.append((v, s))
            elif not stars:
                res.append((TupleV(tuple(v)), s))
            else:
                res.append((self._chain_list(v, stars, s), s))
        return res

    def _chain_list(self, fixed, stars, st):
        items, owned, lo = list(fixed), [()] * len(fixed), len(fixed)
        ordered = True
        parts = [('fixed', tuple(fixed))]
        for v in stars:
            if isinstance(v, Ref) and v.kind == 'list':
                le = st.get(v.sym)
                lo += le.lo
                ordered = ordered and le.ordered
                for j, t in enumerate(le.items):
                    items.append(t)
                    owned.append(le.owned[j] if j < len(le.owned) else ())
                parts.append(('list', v.sym))
            else:
                items.append(Unknown('starred element'))
                owned.append(())
        hi = None
        if all(isinstance(v, Ref) and v.kind == 'list' and st.get(v.sym).hi is not None for v in stars):
            hi = len(fixed) + sum(st.get(v.sym).hi for v in stars)
        sym = st.new(ListE('chain', min(lo, 2) if hi is None else min(lo, hi), hi, items=tuple(items), owned=tuple(owned), ordered=ordered, stages=('display',), spec=tuple(parts)))
        return Ref('list', sym)

    def ev_List(self, e, st):
        res = []
        for (v, stars), s in self._display(e, st):
            if isinstance(v, Raise):
                res.append((v, s))
            elif stars:
                res.append((self._chain_list(v, stars, s), s))
            else:
                sym = s.new(ListE('lit', lo=len(v), hi=len(v), items=tuple(v), distinct=(len(v) == 0)))
                res.append((Ref('list', sym), s))
        return res

    def ev_Set(self, e, st):
        res = []
        for v, s in self.ev_all(e.elts, st):
            if isinstance(v, Raise):
                res.append((v, s))
            else:
                sym = s.new(ListE('set', lo=min(len(v), 1), hi=len(v), items=tuple(v), ordered=False))
                res.append((Ref('list', sym), s))
        return res

    def ev_Dict(self, e, st):
        if any(k is None for k in e.keys):
            raise AnalysisError('dict unpacking in literal')
        res = []
        for ks, s in self.ev_all(e.keys, st):
            if isinstance(ks, Raise):
                res.append((ks, s))
                continue
            for vs, s2 in self.ev_all(e.values, s):
                if isinstance(vs, Raise):
                    res.append((vs, s2))
                else:
                    sym = s2.new(DictE(tuple(zip(ks, vs)), True))
                    res.append((Ref('dict', sym), s2))
        return res

    def ev_JoinedStr(self, e, st):
        parts = [v.value for v in e.values if isinstance(v, ast.FormattedValue)]
        res = []
        fvals = [v for v in e.values if isinstance(v, ast.FormattedValue)]
        first = []
        for vs, s in self.ev_all(parts, st):
            if isinstance(vs, Raise):
                first.append((vs, s))
                continue
            # {obj} / {obj!r} of a program object runs its __str__ / __repr__ (which may raise)
            outs = [(None, s)]
            for fv, v in zip(fvals, vs):
                if isinstance(v, Ref) and v.kind == 'obj':
                    nxt = []
                    for r0, s1 in outs:
                        if isinstance(r0, Raise):
                            nxt.append((r0, s1))
                            continue
                        got = self.builtin('repr' if fv.conversion == 114 else 'str', [v], {}, s1, fv)
                        nxt.extend((r1 if isinstance(r1, Raise) else None, s2) for r1, s2 in got)
                    outs = nxt
            for r0, s1 in outs:
                first.append((r0 if isinstance(r0, Raise) else vs, s1))
        for vs, s in first:
            if isinstance(vs, Raise):
                res.append((vs, s))
                continue
            if all(isinstance(v, Const) for v in vs):
                it = iter(vs)
                text = ''
                ok = True
                for v in e.values:
                    if isinstance(v, ast.Constant):
                        text += str(v.value)
                    elif v.format_spec is None and v.conversion == -1:
                        text += str(next(it).v)
                    else:
                        ok = False
                if ok:
                    res.append((Const(text), s))
                    continue
            res.append((StrV(('fmt',)), s))
        return res

    def ev_FormattedValue(self, e, st):
        return self.ev(e.value, st)

    def ev_IfExp(self, e, st):
        res = []
        for b, s in self.cond(e.test, st):
            if isinstance(b, Raise):
                res.append((b, s))
            else:
                res.extend(self.ev(e.body if b else e.orelse, s))
        return res

    def ev_BoolOp(self, e, st):
        # value semantics of and/or: evaluate operand by operand with truthiness forks
        is_and = isinstance(e.op, ast.And)

        def go(i, s):
            if i == len(e.values) - 1:
                return self.ev(e.values[i], s)
            out = []
            for v, s1 in self.ev(e.values[i], s):
                if isinstance(v, Raise):
                    out.append((v, s1))
                    continue
                for b, s2 in self.truth(v, s1, e.values[i]):
                    if b == is_and:
                        out.extend(go(i + 1, s2))
                    else:
                        out.append((v, s2))
            return out
        return go(0, st)

    def ev_UnaryOp(self, e, st):
        if isinstance(e.op, ast.Not):
            return [((Const(not b) if not isinstance(b, Raise) else b), s) for b, s in self.cond(e.operand, st)]
        res = []
        for v, s in self.ev(e.operand, st):
            if isinstance(v, Raise):
                res.append((v, s))
            elif isinstance(v, Const) and isinstance(v.v, (int, float)) and isinstance(e.op, ast.USub):
                res.append((Const(-v.v), s))
            elif isinstance(v, NoneV):
                res.append((self.exc('TypeError', s, e, 'bad operand type for unary op: NoneType'), s))
            else:
                res.append((NumV(), s))
        return res

    def ev_Compare(self, e, st):
        return [((Const(b) if not isinstance(b, Raise) else b), s) for b, s in self.cond(e, st)]

    def ev_BinOp(self, e, st):
        res = []
        for vs, s in self.ev_all([e.left, e.right], st):
            if isinstance(vs, Raise):
                res.append((vs, s))
            else:
                res.extend(self.model_binop(e.op, vs[0], vs[1], s, e))
        return res

    def ev_Subscript(self, e, st):
        res = []
        for c, s in self.ev(e.value, st):
            if isinstance(c, Raise):
                res.append((c, s))
                continue
            if isinstance(e.slice, ast.Slice):
                parts = [x for x in (e.slice.lower, e.slice.upper, e.slice.step)]
                vals = []
                ok = True
                for p in parts:
                    if p is None:
                        vals.append(None)
                    elif isinstance(p, ast.Constant) and isinstance(p.value, int):
                        vals.append(p.value)
                    elif isinstance(p, ast.UnaryOp) and isinstance(p.op, ast.USub) and isinstance(p.operand, ast.Constant):
                        vals.append(-p.operand.value)
                    else:
                        ok = False
                res.extend(self.model_slice(c, tuple(vals) if ok else None, s, e))
                continue
            for i, s2 in self.ev(e.slice, s):
                if isinstance(i, Raise):
                    res.append((i, s2))
                else:
                    res.extend(self.model_getitem(c, i, s2, e))
        return res

    def ev_Starred(self, e, st):
        raise AnalysisError('starred expression outside a call')

    def ev_Lambda(self, e, st):
        a = e.args
        if a.vararg or a.kwarg or a.kwonlyargs or a.posonlyargs:
            return [(Unknown('lambda'), st)]
        free = {n.id for n in ast.walk(e.body) if isinstance(n, ast.Name)} - {x.arg for x in a.args}
        self.lambdas[id(e)] = (e, st.frame.func)
        res = []
        for dvals, s in self._eval_defaults(a.defaults, st):
            if isinstance(dvals, Raise):
                res.append((dvals, s))
                continue
            captured = tuple(sorted(((n, s.frame.env[n]) for n in free if n in s.frame.env), key=lambda kv: kv[0]))
            res.append((LamV(id(e), captured, dvals, len(s.frames)), s))
        return res

    def call_lambda(self, lam, args, kwargs, st, node):
        e, func = self.lambdas[lam.key]
        params = [x.arg for x in e.args.args]
        if len(args) > len(params):
            return [(self.exc('TypeError', st, node, 'too many arguments for lambda'), st)]
        env = dict(lam.captured)
        # late binding: while the defining frame is alive, the free variables of the body are that frame's *current* variables
        if 0 < lam.depth <= len(st.frames) and st.frames[lam.depth - 1].func is func:
            live = st.frames[lam.depth - 1].env
            body = e.body if isinstance(e.body, list) else [e.body]
            free = {x.id for b in body for x in ast.walk(b) if isinstance(x, ast.Name)} - set(params)
            for n in free | set(env):          # also names bound only after the function object was created
                if n in live:
                    env[n] = live[n]
        defaults = e.args.defaults
        bound = dict(zip(params, args))
        for k, v in kwargs.items():
            if k not in params or k in bound:
                return [(self.exc('TypeError', st, node, f'unexpected argument {k} for lambda'), st)]
            bound[k] = v
        missing = [p for p in params if p not in bound]
        if missing and (len(missing) > len(defaults) or params[-len(missing):] != missing):
            return [(self.exc('TypeError', st, node, 'missing arguments for lambda'), st)]
        if len(st.frames) >= MAX_DEPTH:
            raise AnalysisError('call depth exceeded in lambda')
        st = st.copy()
        fr = Frame(func, id(node), len(st.frames))
        fr.callnode = node
        fr.serial0 = st.serial
        fr.env = env
        fr.env.update(bound)
        st.frames.append(fr)
        outs = []
        pre = [(None, st)]
        for p in missing:
            di = len(defaults) - (len(params) - params.index(p))
            if di < len(lam.defaults):
                for _, s in pre:
                    s.frame.env[p] = lam.defaults[di]
                continue
            dnode = defaults[di]
            nxt = []
            for _, s in pre:
                for v, s2 in self.ev(dnode, s):
                    if isinstance(v, Raise):
                        s2.frames.pop()
                        outs.append((v, s2))
                    else:
                        s2.frame.env[p] = v
                        nxt.append((None, s2))
            pre = nxt
        for _, s in pre:
            if isinstance(e, ast.Lambda):
                for v, s2 in self.ev(e.body, s):
                    s2.frames.pop()
                    outs.append((v, s2))
            else:               # nested def: statements
                for ctl, s2 in self.ex_block(e.body, s):
                    if ctl == NEXT:
                        val = NoneV(('noret', e.name))
                    elif isinstance(ctl, tuple) and ctl[0] == 'ret':
                        val = ctl[1]
                    elif isinstance(ctl, tuple) and ctl[0] == 'raise':
                        val = Raise(ctl[1])
                    else:
                        raise AnalysisError(f'break/continue escaped nested function {e.name}')
                    s2.frames.pop()
                    outs.append((val, s2))
        return outs

    def ev_NamedExpr(self, e, st):
        res = []
        for v, s in self.ev(e.value, st):
            if not isinstance(v, Raise):
                s.frame.env[e.target.id] = v
            res.append((v, s))
        return res

    # -- comprehensions
    def ev_ListComp(self, e, st):
        return self.comprehension(e, st, 'list')

    def ev_GeneratorExp(self, e, st):
        return self.comprehension(e, st, 'gen')

    def ev_SetComp(self, e, st):
        return self.comprehension(e, st, 'set')

    def ev_DictComp(self, e, st):
        return self.comprehension(e, st, 'dict')

    # -- calls
    def _any_all(self, e, st):
        """any(<cond> for v in xs) / all(...) : the loop with early exit, so that conditions fold on literals and the
        overall-False (any) / overall-True (all) path carries the facts of every iteration."""
        gen = e.args[0]
        g = gen.generators[0]
        want_any = e.func.id == 'any'
        res = []
        names = [n.id for n in ast.walk(g.target) if isinstance(n, ast.Name)]
        saved = {n: st.frame.env[n] for n in names if n in st.frame.env}
        for it, s in self.ev(g.iter, st):
            if isinstance(it, Raise):
                res.append((it, s))
                continue

            def body(elem, s2):
                outs = []
                for ctl, s3 in self.assign(g.target, elem, s2, e):
                    if ctl != NEXT:
                        outs.append((ctl, s3))
                        continue
                    conds = [(True, s3)]
                    for c in list(g.ifs):
                        nxt = []
                        for ok, s4 in conds:
                            nxt.extend(self.cond(c, s4) if ok is True else [(ok, s4)])
                        conds = nxt
                    for ok, s4 in conds:
                        if isinstance(ok, Raise):
                            outs.append((('raise', ok.exc), s4))
                        elif not ok:
                            outs.append((NEXT, s4))
                        else:
                            for b, s5 in self.cond(gen.elt, s4):
                                if isinstance(b, Raise):
                                    outs.append((('raise', b.exc), s5))
                                elif b == want_any:
                                    outs.append((('ret', Const(want_any)), s5))      # early exit
                                else:
                                    outs.append((NEXT, s5))
                return outs
            exits, escapes = self.run_loop(it, s, body, e)
            for _, s2 in exits:
                if want_any:
                    self._any_all_fact(gen, g, s2, it)       # every element compared unequal
                res.append((Const(not want_any), s2))
            for ctl, s2 in escapes:
                if isinstance(ctl, tuple) and ctl[0] == 'ret':
                    res.append((ctl[1], s2))
                elif isinstance(ctl, tuple) and ctl[0] == 'raise':
                    res.append((Raise(ctl[1]), s2))
        for v, s in res:
            for n in names:
                s.frame.env.pop(n, None)
            s.frame.env.update(saved)
        return res

    def _next_gen(self, e, st, gen=None):
        """next(<generator expression>[, default]): the loop with early exit at the first element produced (the generator
        is lazy: elements after the first match are never evaluated)."""
        gen = gen if gen is not None else e.args[0]
        g = gen.generators[0]
        res = []
        names = [n.id for n in ast.walk(g.target) if isinstance(n, ast.Name)]
        walrus = [n.target.id for c in list(g.ifs) + [gen.elt] for n in ast.walk(c) if isinstance(n, ast.NamedExpr)]
        saved = {n: st.frame.env[n] for n in names if n in st.frame.env}
        for it, s in self.ev(g.iter, st):
            if isinstance(it, Raise):
                res.append((it, s))
                continue

            def body(elem, s2):
                outs = []
                for ctl, s3 in self.assign(g.target, elem, s2, e):
                    if ctl != NEXT:
                        outs.append((ctl, s3))
                        continue
                    conds = [(True, s3)]
                    for c in list(g.ifs):
                        nxt = []
                        for ok, s4 in conds:
                            nxt.extend(self.cond(c, s4) if ok is True else [(ok, s4)])
                        conds = nxt
                    for ok, s4 in conds:
                        if isinstance(ok, Raise):
                            outs.append((('raise', ok.exc), s4))
                        elif not ok:
                            outs.append((NEXT, s4))
                        else:
                            for v, s5 in self.ev(gen.elt, s4):
                                outs.append(((('raise', v.exc) if isinstance(v, Raise) else ('ret', v)), s5))
                return outs
            exits, escapes = self.run_loop(it, s, body, e)
            for _, s2 in exits:
                if len(e.args) > 1:
                    for d, s3 in self.ev(e.args[1], s2):
                        res.append((d, s3))
                else:
                    res.append((self.exc('StopIteration', s2, e), s2))
            for ctl, s2 in escapes:
                if isinstance(ctl, tuple) and ctl[0] == 'ret':
                    res.append((ctl[1], s2))
                elif isinstance(ctl, tuple) and ctl[0] == 'raise':
                    res.append((Raise(ctl[1]), s2))
        for v, s in res:
            for n in names:
                if n not in walrus:
                    s.frame.env.pop(n, None)
            s.frame.env.update(saved)
        return res

    def _any_all_fact(self, gen, g, st, it):
        """`any(x is v for v in L)` was False, i.e. the comparison failed for every element: x not-in L (and not in
        the lists L was displayed from)"""
        if g.ifs:
            return
        c = gen.elt
        if isinstance(c, ast.Compare) and len(c.ops) == 1 and isinstance(c.ops[0], (ast.Is, ast.Eq)) and isinstance(g.target, ast.Name):
            sides = [c.left, c.comparators[0]]
            other = [x for x in sides if not (isinstance(x, ast.Name) and x.id == g.target.id)]
            if len(other) == 1 and isinstance(other[0], ast.Name):
                x = st.frame.env.get(other[0].id)
                lists = []
                if isinstance(it, Ref) and it.kind == 'list' and it.sym in st.heap:
                    le = st.get(it.sym)
                    lists = [it.sym] + [p[1] for p in (le.spec or ()) if isinstance(p, tuple) and p and p[0] == 'list']
                if isinstance(g.iter, (ast.Tuple, ast.List)):          # (a, *names): the starred lists themselves
                    for el in g.iter.elts:
                        if isinstance(el, ast.Starred) and isinstance(el.value, ast.Name):
                            lv = st.frame.env.get(el.value.id)
                            if isinstance(lv, Ref) and lv.kind == 'list':
                                lists.append(lv.sym)
                elif isinstance(g.iter, ast.Name):
                    lv = st.frame.env.get(g.iter.id)
                    if isinstance(lv, Ref) and lv.kind == 'list':
                        lists.append(lv.sym)
                if isinstance(x, Ref) and x.kind == 'elem':
                    for L in lists:
                        st.facts.add(('notin', x.sym, L))

    def ev_Call(self, e, st):
        if isinstance(e.func, ast.Name) and e.func.id in ('any', 'all') and e.func.id not in st.frame.env and len(e.args) == 1 \
                and not e.keywords and isinstance(e.args[0], (ast.GeneratorExp, ast.ListComp)) and len(e.args[0].generators) == 1:
            return self._any_all(e, st)
        if isinstance(e.func, ast.Name) and e.func.id == 'next' and 'next' not in st.frame.env and len(e.args) in (1, 2) \
                and not e.keywords and isinstance(e.args[0], ast.GeneratorExp) and len(e.args[0].generators) == 1:
            return self._next_gen(e, st)
        if isinstance(e.func, ast.Name) and e.func.id == 'next' and 'next' not in st.frame.env and len(e.args) in (1, 2) and not e.keywords \
                and isinstance(e.args[0], ast.Call) and isinstance(e.args[0].func, ast.Name) and e.args[0].func.id == 'filter' \
                and 'filter' not in st.frame.env and len(e.args[0].args) == 2 and not e.args[0].keywords:
            # next(filter(f, xs)[, default]) == next((v for v in xs if f(v))[, default]) : lazy, first match wins
            fexpr, xs = e.args[0].args
            var = ast.Name(id='%nf', ctx=ast.Load())
            cond = var if (isinstance(fexpr, ast.Constant) and fexpr.value is None) else ast.Call(func=fexpr, args=[var], keywords=[])
            gen = ast.GeneratorExp(elt=var, generators=[ast.comprehension(target=ast.Name(id='%nf', ctx=ast.Store()), iter=xs, ifs=[cond], is_async=0)])
            ast.copy_location(gen, e.args[0])
            ast.fix_missing_locations(gen)
            return self._next_gen(e, st, gen=gen)
        if isinstance(e.func, ast.Name) and e.func.id == 'next' and 'next' not in st.frame.env and len(e.args) in (1, 2) \
                and not e.keywords and isinstance(e.args[0], ast.Name) and isinstance(st.frame.env.get(e.args[0].id), GenV):
            return self._next_gen(e, st, gen=self.genexps[st.frame.env[e.args[0].id].key])
        # super()
        if isinstance(e.func, ast.Name) and e.func.id == 'super' and 'super' not in st.frame.env:
            return [(self.super_value(st, e), st)]
        res = []
        for f, s in self.ev(e.func, st):
            if isinstance(f, Raise):
                res.append((f, s))
                continue
            for av, s2 in self.eval_args(e, s):
                if isinstance(av, Raise):
                    res.append((av, s2))
                    continue
                args, kwargs = av
                res.extend(self.call_value(f, args, kwargs, s2, e))
        return res

    def eval_args(self, e, st):
        """Evaluate the arguments of a call.  Values already computed are kept alive (hidden frame names) while later
        arguments are evaluated: those may run loops, and loops collect garbage."""
        outs = self._eval_args(e, st)
        tag = f'%a{id(e)}'
        for _, s in outs:
            for k in [k for k in s.frame.env if k.startswith(tag)]:
                del s.frame.env[k]
        return outs

    def _pin_args(self, e, av, s):
        args, kw = av
        tag = f'%a{id(e)}'
        for j, v in enumerate(args):
            s.frame.env[f'{tag}p{j}'] = v
        for k, v in kw.items():
            s.frame.env[f'{tag}k{k}'] = v

    def _eval_args(self, e, st):
        outs = [(([], {}), st)]
        for a in e.args:
            nxt = []
            for av, s in outs:
                if isinstance(av, Raise):
                    nxt.append((av, s))
                    continue
                args, kw = av
                if isinstance(a, ast.Starred):
                    for v, s2 in self.ev(a.value, s):
                        if isinstance(v, Raise):
                            nxt.append((v, s2))
                            continue
                        for items, s3 in self.as_fixed(v, None, s2, e):
                            if isinstance(items, Raise):
                                nxt.append((items, s3))
                            elif items is None:
                                nxt.append(((args + [Unknown('*args')], kw, ), s3))
                                self.note('star-args of unknown length')
                            else:
                                nxt.append(((args + list(items), kw), s3))
                else:
                    for v, s2 in self.ev(a, s):
                        if isinstance(v, Raise):
                            nxt.append((v, s2))
                        else:
                            nxt.append(((args + [v], kw), s2))
            outs = nxt
            for av_, s_ in outs:
                if not isinstance(av_, Raise):
                    self._pin_args(e, av_, s_)
        for k in e.keywords:
            nxt = []
            for av, s in outs:
                if isinstance(av, Raise):
                    nxt.append((av, s))
                    continue
                args, kw = av
                if k.arg is None:
                    for v, s2 in self.ev(k.value, s):
                        if isinstance(v, Raise):
                            nxt.append((v, s2))
                        elif isinstance(v, Ref) and v.kind == 'dict' and s2.get(v.sym).exact \
                                and all(isinstance(a, Const) and isinstance(a.v, str) for a, _ in s2.get(v.sym).items):
                            kw2 = dict(kw)
                            for a, b in s2.get(v.sym).items:       # **{'name': value}: an exact mapping is expanded
                                kw2[a.v] = b
                            nxt.append(((args, kw2), s2))
                        else:
                            self.note('**kwargs call with a mapping that is not known key by key')
                            nxt.append(((args, kw), s2))
                    continue
                for v, s2 in self.ev(k.value, s):
                    if isinstance(v, Raise):
                        nxt.append((v, s2))
                    else:
                        kw2 = dict(kw)
                        kw2[k.arg] = v
                        nxt.append(((args, kw2), s2))
            outs = nxt
            for av_, s_ in outs:
                if not isinstance(av_, Raise):
                    self._pin_args(e, av_, s_)
        return outs

    def super_value(self, st, node):
        f = st.frame.func
        if f.cls is None:
            raise AnalysisError('super() outside a method')
        first = f.node.args.args[0].arg
        return ('super', f.cls, st.frame.env[first])

    def call_value(self, f, args, kwargs, st, node):
        if isinstance(f, FuncV):
            fi = self.prog.functions[f.qual]
            return self.call_function(fi, args, kwargs, st, node)
        if isinstance(f, BoundV):
            fi = self.prog.functions[f.qual]
            return self.call_function(fi, args, kwargs, st, node, self_val=f.recv)
        if isinstance(f, ClsV):
            return self.instantiate(f, args, kwargs, st, node)
        if isinstance(f, MethV):
            return self.model_method(f.recv, f.name, args, kwargs, st, node)
        if isinstance(f, ExtV):
            return self.model_ext(f.name, args, kwargs, st, node)
        if isinstance(f, LamV):
            return self.call_lambda(f, args, kwargs, st, node)
        if isinstance(f, PartV):
            if f.kind == 'partial':
                kw = dict(f.kwargs)
                kw.update(kwargs)
                return self.call_value(f.func, list(f.args) + list(args), kw, st, node)
            if not args:
                return [(self.exc('TypeError', st, node, f'{f.kind} object called without an operand'), st)]
            obj = args[0]
            if f.kind == 'attrgetter' and len(f.args) == 1 and isinstance(f.args[0], Const):
                outs = [(obj, st)]
                for part in str(f.args[0].v).split('.'):
                    nxt = []
                    for v, s in outs:
                        nxt.extend([(v, s)] if isinstance(v, Raise) else self.getattr_(v, part, s, node))
                    outs = nxt
                return outs
            if f.kind == 'itemgetter' and len(f.args) == 1:
                return self.model_getitem(obj, f.args[0], st, node)
            if f.kind == 'methodcaller' and f.args and isinstance(f.args[0], Const):
                res = []
                for m, s in self.getattr_(obj, f.args[0].v, st, node):
                    res.extend([(m, s)] if isinstance(m, Raise) else self.call_value(m, list(f.args[1:]), dict(f.kwargs), s, node))
                return res
            raise AnalysisError(f'{f.kind} with these arguments is not modelled')
        if isinstance(f, Unknown):
            self.note(f'call of unknown value {norm(node.func)}')
            return [(Unknown('call ' + norm(node.func)), st)]
        if isinstance(f, NoneV):
            return [(self.exc('TypeError', st, node, "'NoneType' object is not callable"), st)]
        self.note(f'call of non-callable {type(f).__name__} {norm(node.func)}')
        return [(Unknown('call'), st)]

    def instantiate(self, c: ClsV, args, kwargs, st, node):
        if c.qual.startswith('ext:'):
            name = c.qual[4:]
            if self.hier.known(name):
                return [(ExcV(name, '', self.site(node, st), False), st)]
            return [(Unknown('instance of ' + name), st)]
        ci = self.prog.classes[c.qual]
        if any(b.split('.')[-1] == 'NamedTuple' for b in ci.ext_bases) and not ci.find('__new__'):
            # class X(NamedTuple): a: ...; b: ... = default  ->  a plain tuple with named fields
            fields, defaults = [], {}
            for b in ci.node.body:
                if isinstance(b, ast.AnnAssign) and isinstance(b.target, ast.Name):
                    fields.append(b.target.id)
                    if b.value is not None:
                        defaults[b.target.id] = b.value
            if len(args) > len(fields) or any(k not in fields for k in kwargs):
                return [(self.exc('TypeError', st, node, f'{ci.name}() got unexpected arguments'), st)]
            bound = dict(zip(fields, args))
            for k, v in kwargs.items():
                if k in bound:
                    return [(self.exc('TypeError', st, node, f'{ci.name}() got multiple values for {k}'), st)]
                bound[k] = v
            outs = [(bound, st)]
            for f_ in fields:
                if f_ in bound:
                    continue
                if f_ not in defaults:
                    return [(self.exc('TypeError', st, node, f'{ci.name}() missing argument {f_}'), st)]
                nxt = []
                for bd, s in outs:
                    for v, s2 in self.ev(defaults[f_], s):
                        if isinstance(v, Raise):
                            return [(v, s2)]
                        nxt.append((dict(bd, **{f_: v}), s2))
                outs = nxt
            return [(TupleV(tuple(bd[f_] for f_ in fields), tuple(fields)), s) for bd, s in outs]
        ext = ci.ext_ancestors()
        if any(self.hier.known(x.split('.')[-1]) for x in ext):
            return [(ExcV(ci.name, '', self.site(node, st), False), st)]
        st = st.copy()
        sym = st.new(ObjE(ci.qualname, (), explicit=tuple(sorted(kwargs)), site=self.site(node, st) if node is not None else None))
        obj = Ref('obj', sym)
        init = ci.find('__init__')
        if init is None:
            return [(obj, st)]
        res = []
        for v, s in self.call_function(init, args, kwargs, st, node, self_val=obj):
            res.append((v if isinstance(v, Raise) else obj, s))
        return res

    # ------------------------------------------------------------ attributes
    def getattr_(self, o: Val, name: str, st: State, node) -> List[Tuple[Any, State]]:
        if isinstance(o, tuple) and o and o[0] == 'super':
            _, cls, selfv = o
            mro = self._runtime_cls(selfv, st, cls).mro
            idx = mro.index(cls) if cls in mro else 0
            for k in mro[idx + 1:]:
                if name in k.methods:
                    fi = k.methods[name]
                    if fi.kind == 'property':
                        return self.call_function(fi, [], {}, st, node, self_val=selfv)
                    return [(BoundV(selfv, fi.qualname), st)]
            if name == '__init__':
                return [(ExtV('object.__init__'), st)]
            return [(self.exc('AttributeError', st, node, f'super has no {name}'), st)]
        if isinstance(o, TupleV) and o.names and name in o.names:
            return [(o.items[o.names.index(name)], st)]
        if isinstance(o, Ref) and o.kind == 'obj':
            e: ObjE = st.get(o.sym)
            ci = self.prog.classes[e.cls]
            if name == '__class__':
                return [(ClsV(ci.qualname), st)]
            fi = ci.find(name)
            if fi is not None and fi.kind == 'opaque':
                self.note(f'{fi.short} carries an unknown decorator {list(fi.decorators)}: treated as opaque')
                return [(Unknown('opaque ' + fi.short), st)]
            if fi is not None and fi.kind == 'property' and fi.cached:
                # functools.cached_property: evaluated once, then served from the instance dictionary
                stored = e.get('%cached:' + name)
                if stored is not None:
                    return [(stored, st)]
                outs = self.call_function(fi, [], {}, st, node, self_val=o)
                res = []
                for v, s in outs:
                    if not isinstance(v, Raise) and o.sym in s.heap:
                        s.put(o.sym, s.get(o.sym).set('%cached:' + name, v))
                        self.on_cached_property(o, fi, v, s, node)
                    res.append((v, s))
                return res
            if fi is not None and fi.kind == 'property':
                memo = st.mon.get('propmemo')
                if memo and (o.sym, fi.qualname) in memo:
                    return [(memo[(o.sym, fi.qualname)], st)]
                before = st.effects
                outs = self.call_function(fi, [], {}, st, node, self_val=o)
                for v, s in outs:
                    # a getter evaluated without side effects yields the same value when evaluated again on
                    # the same path (until the next effect): value-number it
                    if not isinstance(v, Raise) and s.effects == before and o.sym in s.heap:
                        m = dict(s.mon.get('propmemo') or {})
                        m[(o.sym, fi.qualname)] = v
                        s.mon['propmemo'] = m
                return outs
            v = e.get(name)
            if v is not None:
                return [(v, st)]
            if fi is not None:
                if fi.kind == 'classmethod':
                    return [(BoundV(ClsV(ci.qualname), fi.qualname), st)]
                if fi.kind == 'staticmethod':
                    return [(FuncV(fi.qualname), st)]
                return [(BoundV(o, fi.qualname), st)]
            ca = ci.find_attr(name)
            if ca is not None:
                return [(self.module_global(ca[0].module, ca[1], st), st)]
            return [(self.exc('AttributeError', st, node, f'{ci.name} object has no attribute {name}'), st)]
        if isinstance(o, ClsV):
            if o.qual.startswith('ext:'):
                if name == '__name__':
                    return [(Const(o.qual[4:]), st)]
                return [(ExtV(o.qual[4:] + '.' + name), st)]
            ci = self.prog.classes[o.qual]
            if name == '__name__':
                return [(Const(ci.name), st)]
            fi = ci.find(name)
            if fi is not None:
                if fi.kind == 'classmethod':
                    return [(BoundV(o, fi.qualname), st)]
                return [(FuncV(fi.qualname), st)]
            ca = ci.find_attr(name)
            if ca is not None:
                return [(self.module_global(ca[0].module, ca[1], st), st)]
            return [(self.exc('AttributeError', st, node, f'class {ci.name} has no attribute {name}'), st)]
        if isinstance(o, ModV):
            m = self.prog.modules[o.name]
            r = self.prog.resolve_global(m, name)
            if r is None:
                sub = o.name + '.' + name
                if sub in self.prog.modules:
                    return [(ModV(sub), st)]
                return [(self.exc('AttributeError', st, node, f'module {o.name} has no attribute {name}'), st)]
            return [(self.global_value(r, st), st)]
        if isinstance(o, ExtV):
            if o.name.startswith('singleton:'):
                # module-level singleton instance of a repository class
                ci = self.prog.classes[o.name[len('singleton:'):]]
                fi = ci.find(name)
                if fi is not None and fi.kind == 'property':
                    return [(ExtV(f'result:{ci.name}.{name}'), st)]
                if fi is not None:
                    return [(ExtV(f'{ci.name}.{name}'), st)]
            return [(self.ext_value(o.name + '.' + name), st)]
        if isinstance(o, NoneV):
            return [(self.exc('AttributeError', st, node, f"'NoneType' object has no attribute '{name}'"), st)]
        if isinstance(o, ExcV):
            if name == 'args':
                return [(TupleV((StrV(('exc',)),)), st)]
            return [(Unknown('exception attribute'), st)]
        if isinstance(o, Unknown):
            return [(Unknown(f'{o.why}.{name}'), st)]
        return self.model_getattr(o, name, st, node)

    def _runtime_cls(self, v, st, default):
        if isinstance(v, Ref) and v.kind == 'obj':
            return self.prog.classes[st.get(v.sym).cls]
        if isinstance(v, ClsV) and not v.qual.startswith('ext:'):
            return self.prog.classes[v.qual]
        return default

    def setattr_(self, o: Val, name: str, val: Val, st: State, node):
        if isinstance(o, Ref) and o.kind == 'obj':
            e: ObjE = st.get(o.sym)
            ci = self.prog.classes[e.cls]
            fi = ci.find(name)
            if fi is not None and fi.kind == 'property':
                if fi.setter is None:
                    return [(self.exc('AttributeError', st, node, f"can't set attribute {name}"), st)]
                raise AnalysisError('property setters are not modelled')
            self.on_setfield(o, name, e.get(name), val, st, node)
            st.put(o.sym, e.set(name, val))
            f = st.frame.func
            own = f is not None and f.kind == 'property' and f.node.args.args and st.frame.env.get(f.node.args.args[0].arg) == o
            getters = [fr for fr in st.frames if fr.func is not None and fr.func.kind == 'property']
            if getters and o.sym > getters[0].serial0:
                pass        # initialising an object allocated inside the getter being evaluated: not an observable effect
            elif own:
                # a getter caching into its own receiver (``self._id = ...``): idempotent, only that object's
                # value numbers are dropped
                memo = st.mon.get('propmemo')
                if memo:
                    st.mon['propmemo'] = {k: v for k, v in memo.items() if k[0] != o.sym}
            else:
                st.effect()
            return [(NoneV(), st)]
        if isinstance(o, NoneV):
            return [(self.exc('AttributeError', st, node, f"'NoneType' object has no attribute '{name}'"), st)]
        if isinstance(o, Ref) and o.kind == 'elem':
            return self.model_setattr_elem(o, name, val, st, node)
        if isinstance(o, (Unknown, ExtV)):
            self.note(f'attribute store on {type(o).__name__}: {norm(node)}')
            return [(NoneV(), st)]
        raise AnalysisError(f'attribute store on {type(o).__name__} at line {getattr(node, "lineno", "?")}')

    def on_setfield(self, obj, name, old, new, st, node):
        pass

    def on_cached_property(self, obj, fi, value, st, node):
        pass
