"""Frozen specification-side tables (DESIGN §2.5).  Each row has a one-line source.

These are *not* extracted from the repository: they are the MOS DTD facts and
the documented behaviour against which the repository's code is judged.
"""

# Root element of every MOS document is called '#root' in the model (its real
# tag, 'mos', is never inspected by the library).
ROOT = '#root'

# ---------------------------------------------------------------- presence
# (parent tag, child tag) -> True when the MOS DTD makes the child mandatory.
# "schema-shaped" (C12/C15) means exactly: these children are present.
REQUIRED = {
    (ROOT, 'messageID'): 'MOS 2.8.5 §3: every message carries messageID',
    ('roCreate', 'roID'): 'DTD roCreate: roID, roSlug mandatory',
    ('roCreate', 'roSlug'): 'DTD roCreate: roID, roSlug mandatory',
    ('roReplace', 'roID'): 'DTD roReplace = roCreate content',
    ('roReplace', 'roSlug'): 'DTD roReplace = roCreate content',
    ('roMetadataReplace', 'roID'): 'DTD roMetadataReplace: roID, roSlug mandatory',
    ('roMetadataReplace', 'roSlug'): 'DTD roMetadataReplace: roID, roSlug mandatory',
    ('roDelete', 'roID'): 'DTD roDelete: roID',
    ('roReadyToAir', 'roID'): 'DTD roReadyToAir: roID',
    ('roStorySend', 'roID'): 'DTD roStorySend: roID, storyID, storyBody mandatory',
    ('roStorySend', 'storyID'): 'DTD roStorySend: roID, storyID, storyBody mandatory',
    ('roStorySend', 'storyBody'): 'DTD roStorySend: roID, storyID, storyBody mandatory',
    ('roStoryAppend', 'roID'): 'DTD roStoryAppend: roID, story+',
    ('roStoryInsert', 'roID'): 'DTD roStoryInsert: roID, storyID, story+',
    ('roStoryInsert', 'storyID'): 'DTD roStoryInsert: roID, storyID, story+',
    ('roStoryReplace', 'roID'): 'DTD roStoryReplace: roID, storyID, story+',
    ('roStoryReplace', 'storyID'): 'DTD roStoryReplace: roID, storyID, story+',
    ('roStoryMove', 'roID'): 'DTD roStoryMove: roID, storyID, storyID',
    ('roStoryDelete', 'roID'): 'DTD roStoryDelete: roID, storyID+',
    ('roItemInsert', 'roID'): 'DTD roItemInsert: roID, storyID, itemID, item+',
    ('roItemInsert', 'storyID'): 'DTD roItemInsert: roID, storyID, itemID, item+',
    ('roItemInsert', 'itemID'): 'DTD roItemInsert: roID, storyID, itemID, item+',
    ('roItemReplace', 'roID'): 'DTD roItemReplace: roID, storyID, itemID, item+',
    ('roItemReplace', 'storyID'): 'DTD roItemReplace: roID, storyID, itemID, item+',
    ('roItemReplace', 'itemID'): 'DTD roItemReplace: roID, storyID, itemID, item+',
    ('roItemDelete', 'roID'): 'DTD roItemDelete: roID, storyID, itemID+',
    ('roItemDelete', 'storyID'): 'DTD roItemDelete: roID, storyID, itemID+',
    ('roItemMoveMultiple', 'roID'): 'DTD roItemMoveMultiple: roID, storyID, itemID+',
    ('roItemMoveMultiple', 'storyID'): 'DTD roItemMoveMultiple: roID, storyID, itemID+',
    ('roElementAction', 'roID'): 'DTD roElementAction: roID, element_target?, element_source',
    ('roElementAction', 'element_source'): 'DTD roElementAction: roID, element_target?, element_source',
    ('story', 'storyID'): 'DTD story: storyID mandatory',
    ('item', 'itemID'): 'DTD item: itemID mandatory',
    ('storyItem', 'itemID'): 'DTD storyItem: itemID mandatory',
    ('mosExternalMetadata', 'mosPayload'): 'DTD mosExternalMetadata: mosSchema, mosPayload mandatory',
    ('mosExternalMetadata', 'mosSchema'): 'DTD mosExternalMetadata: mosSchema, mosPayload mandatory',
}

# (parent tag, child tag) -> minimum number of such children (findall lower bound)
MIN_COUNT = {
    ('roStoryMove', 'storyID'): 1,
    ('roStoryDelete', 'storyID'): 1,
    ('roItemDelete', 'itemID'): 1,
    ('roItemMoveMultiple', 'itemID'): 1,
    ('roStoryAppend', 'story'): 1,
    ('roStoryInsert', 'story'): 1,
    ('roItemInsert', 'item'): 1,
    ('roItemReplace', 'item'): 1,
}
for (_p, _c) in REQUIRED:
    MIN_COUNT.setdefault((_p, _c), 1)

# Tags whose text is an identifier that "may be blank" (C12): reading .text forks None/str.
ID_TAGS = {'storyID', 'itemID'}
# Tags whose text is mandatory and non-blank by assumption (stated in evidence).
NONBLANK_TAGS = {'messageID', 'roID', 'roSlug', 'mosSchema'}
# Leaf value tags: when present they carry a well-formed value (C15: "absent optional data").
VALUE_TAGS = {'StoryDuration', 'TextTime', 'MediaTime', 'StoryStarted', 'StoryEnded', 'roEdStart',
              'roEdDur', 'objType', 'objID', 'mosID', 'storySlug', 'itemSlug', 'text', 'ncsID'}

# Tags that may hold several IDs of one kind (multi-ID containers).
MULTI_ID_CONTAINERS = {'element_source', 'roStoryDelete', 'roItemDelete', 'roItemMoveMultiple', 'roStoryMove'}

# ------------------------------------------------------- documented elements
DOCUMENTED_TAGS = {
    'roCreate': 'RunningOrder', 'roStorySend': 'StorySend', 'roStoryAppend': 'StoryAppend',
    'roStoryDelete': 'StoryDelete', 'roStoryInsert': 'StoryInsert', 'roStoryMove': 'StoryMove',
    'roStoryReplace': 'StoryReplace', 'roItemDelete': 'ItemDelete', 'roItemInsert': 'ItemInsert',
    'roItemMoveMultiple': 'ItemMoveMultiple', 'roItemReplace': 'ItemReplace',
    'roReplace': 'RunningOrderReplace', 'roMetadataReplace': 'MetaDataReplace',
    'roReadyToAir': 'ReadyToAir', 'roDelete': 'RunningOrderEnd', 'roElementAction': 'ElementAction',
}

# (operation, target has itemID, source has itemID) -> class ; MOS 4.0 roElementAction table
EA_TABLE = {
    ('REPLACE', False, False): 'EAStoryReplace', ('REPLACE', True, False): 'EAItemReplace',
    ('DELETE', False, False): 'EAStoryDelete', ('DELETE', False, True): 'EAItemDelete',
    ('INSERT', False, False): 'EAStoryInsert', ('INSERT', True, False): 'EAItemInsert',
    ('SWAP', False, False): 'EAStorySwap', ('SWAP', False, True): 'EAItemSwap',
    ('MOVE', False, False): 'EAStoryMove', ('MOVE', True, True): 'EAItemMove',
}

# ------------------------------------------------------------- role table
# class -> (operation kind, level, blank/absent target means)
# kinds: SEND APPEND INSERT REPLACE MOVE DELETE SWAP META ROREPLACE END NOOP
ROLES = {
    'StorySend': ('SEND', 'story', None),
    'StoryAppend': ('APPEND', 'story', None),
    'StoryDelete': ('DELETE', 'story', None),
    'StoryInsert': ('INSERT', 'story', 'error'),
    'StoryMove': ('MOVE', 'story', 'end'),
    'StoryReplace': ('REPLACE', 'story', 'error'),
    'ItemDelete': ('DELETE', 'item', None),
    'ItemInsert': ('INSERT', 'item', 'end'),
    'ItemMoveMultiple': ('MOVE', 'item', 'end'),
    'ItemReplace': ('REPLACE', 'item', 'error'),
    'MetaDataReplace': ('META', 'ro', None),
    'ReadyToAir': ('NOOP', 'ro', None),
    'RunningOrderReplace': ('ROREPLACE', 'ro', None),
    'RunningOrderEnd': ('END', 'ro', None),
    'EAStoryReplace': ('REPLACE', 'story', 'error'),
    'EAItemReplace': ('REPLACE', 'item', 'error'),
    'EAStoryDelete': ('DELETE', 'story', None),
    'EAItemDelete': ('DELETE', 'item', None),
    'EAStoryInsert': ('INSERT', 'story', 'end'),
    'EAItemInsert': ('INSERT', 'item', 'end'),
    'EAStorySwap': ('SWAP', 'story', None),
    'EAItemSwap': ('SWAP', 'item', None),
    'EAStoryMove': ('MOVE', 'story', 'end'),
    'EAItemMove': ('MOVE', 'item', 'error'),
}

COMPLETION_MARKER_PARENT = ROOT


# ------------------------------------------------------ accessor role table
# class -> accessor -> steps below the base tag: (tag, selector); selector in first | each | nth1 | nth-1 | each(None, -1, None)
# 'first' and 'nth0' are the same thing; a single element_source may be read with find or findall.
_T = ('element_target', 'first')
_S = ('element_source', 'first')
ACCESSOR_ROLES = {
    'StorySend': {'story': [('copy', 'roStorySend'), ('storyID', 'first')]},
    'StoryAppend': {'stories': [('story', 'each'), ('storyID', 'first')]},
    'StoryDelete': {'stories': [('storyID', 'each')]},
    'ItemDelete': {'story': [('storyID', 'first')], 'items': [('itemID', 'each')]},
    'StoryInsert': {'target_story': [('storyID', 'first')], 'source_stories': [('story', 'each'), ('storyID', 'first')]},
    'ItemInsert': {'story': [('storyID', 'first')], 'item': [('itemID', 'first')], 'items': [('item', 'each'), ('itemID', 'first')]},
    'StoryMove': {'source_story': [('storyID', 'first')], 'target_story': [('storyID', 'nth1')]},
    'ItemMoveMultiple': {'story': [('storyID', 'first')], 'item': [('itemID', 'nth-1')], 'items': [('itemID', 'each(None, -1, None)')]},
    'StoryReplace': {'story': [('storyID', 'first')], 'stories': [('story', 'each'), ('storyID', 'first')]},
    'ItemReplace': {'story': [('storyID', 'first')], 'item': [('itemID', 'first')], 'items': [('item', 'each'), ('itemID', 'first')]},
    'EAStoryReplace': {'story': [_T, ('storyID', 'first')], 'stories': [_S, ('story', 'each'), ('storyID', 'first')]},
    'EAItemReplace': {'story': [_T, ('storyID', 'first')], 'item': [_T, ('itemID', 'first')], 'items': [_S, ('item', 'each'), ('itemID', 'first')]},
    'EAStoryDelete': {'stories': [_S, ('storyID', 'each')]},
    'EAItemDelete': {'story': [_T, ('storyID', 'first')], 'items': [_S, ('itemID', 'each')]},
    'EAStoryInsert': {'story': [_T, ('storyID', 'first')], 'stories': [_S, ('story', 'each'), ('storyID', 'first')]},
    'EAItemInsert': {'story': [_T, ('storyID', 'first')], 'item': [_T, ('itemID', 'first')], 'items': [_S, ('item', 'each'), ('itemID', 'first')]},
    'EAStorySwap': {'stories': [_S, ('storyID', 'each')]},
    'EAItemSwap': {'story': [_T, ('storyID', 'first')], 'items': [_S, ('itemID', 'each')]},
    'EAStoryMove': {'story': [_T, ('storyID', 'first')], 'stories': [_S, ('storyID', 'each')]},
    'EAItemMove': {'story': [_T, ('storyID', 'first')], 'item': [_T, ('itemID', 'first')], 'items': [_S, ('itemID', 'each')]},
}
# accessors that name *sources* (must be mentioned by inspect()); everything else is a target/container
SOURCE_ACCESSORS = {'stories', 'items', 'source_stories', 'source_story'}
SOURCE_ACCESSORS_BY_CLASS = {'StorySend': {'story'}, 'StoryReplace': {'stories'}, 'ItemReplace': {'items'}}
