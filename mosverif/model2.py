"""Second half of the primitive model: iteration, comprehensions, containers,
strings, builtins and library calls."""
from __future__ import annotations

import ast
from dataclasses import replace
from typing import Any, List, Optional

from . import schema
from .domains import (BoolV, BoundV, ClsV, Const, DictE, ElemE, ExcV, ExtV, FuncV, IdxE, IterV, LamV, LenV, ListE,
                      TallyV, PartV, MethV, ModV, NoneV, NumV, ObjE, Ref, S, State, StrV, TupleV, Unknown, Val)
from .front import AnalysisError, norm


def _Raise():
    from .interp import Raise
    return Raise


STR_METHODS_STR = {'strip', 'lstrip', 'rstrip', 'lower', 'upper', 'title', 'replace', 'format', 'join', 'capitalize',
                   'casefold', 'zfill', 'ljust', 'rjust', 'center', 'removeprefix', 'removesuffix', 'decode', 'encode'}
STR_METHODS_BOOL = {'startswith', 'endswith', 'isdigit', 'isalpha', 'isspace', 'isalnum', 'isnumeric', 'islower', 'isupper'}



class _InexactDict(Exception):
    pass

class ModelMixin2:
    # ------------------------------------------------------------ len_cmp
    def len_cmp(self, lsym, op, k, st: State):
        e: ListE = st.get(lsym)
        lo, hi = e.lo, e.hi
        cands = [n for n in (0, 1, 2, 3) if n >= lo and (hi is None or n <= hi)]
        if hi is not None and hi > 3:
            cands = list(range(lo, hi + 1))

        def verdict(n):
            r = {'>': n > k, '>=': n >= k, '<': n < k, '<=': n <= k, '==': n == k, '!=': n != k}[op]
            if n == 3 and hi is None and k >= 3:
                return (True, True)
            return (r, not r)
        T = [n for n in cands if verdict(n)[0]]
        F = [n for n in cands if verdict(n)[1]]
        res = []
        both = bool(T) and bool(F)
        for branch, ns in ((True, T), (False, F)):
            if not ns:
                continue
            s = st.copy() if (both and branch is False) else st
            nhi = None if (hi is None and 3 in ns) else max(ns)
            s.put(lsym, replace(s.get(lsym), lo=min(ns), hi=nhi))
            self.propagate_len(lsym, s)
            res.append((branch, s))
        if both:
            self.stats['forks'] += 1
        return res

    # -------------------------------------------------------- fixed unpack
    def as_fixed(self, val: Val, n: Optional[int], st: State, node):
        """View *val* as a sequence of exactly n items -> [(tuple | Raise | None, st)]"""
        if isinstance(val, TupleV):
            if n is None or len(val.items) == n:
                return [(val.items, st)]
            return [(self.exc('ValueError', st, node, f'cannot unpack {len(val.items)} values into {n}'), st)]
        if isinstance(val, NoneV):
            return [(self.exc('TypeError', st, node, 'cannot unpack non-iterable NoneType object'), st)]
        if isinstance(val, Const) and isinstance(val.v, str):
            if n is None or len(val.v) == n:
                return [(tuple(Const(ch) for ch in val.v), st)]
            return [(self.exc('ValueError', st, node, f'cannot unpack {len(val.v)} characters into {n}'), st)]
        if isinstance(val, Ref) and val.kind == 'list':
            le: ListE = st.get(val.sym)
            if le.kind == 'lit':
                if n is None or len(le.items) == n:
                    return [(le.items, st)]
                return [(self.exc('ValueError', st, node, f'cannot unpack {len(le.items)} values into {n}'), st)]
            if n is None:
                if le.hi is not None and le.lo == le.hi and le.hi <= 4:
                    n = le.hi            # *xs with a list whose length is known exactly: materialise its elements
                else:
                    return [(None, st)]
            outs = []
            for ok, s in self.len_cmp(val.sym, '==', n, st):
                if not ok:
                    outs.append((self.exc('ValueError', s, node, f'unpacking {self.describe(val, s)} into {n} names: wrong number of values'), s))
                    continue
                # exactly n elements: materialise them
                cur = [((), s)]
                for k in range(n):
                    nxt = []
                    for items, s1 in cur:
                        for v, s2 in self.list_nth(val, k, s1, node):
                            nxt.append((items + (v,), s2))
                    cur = nxt
                outs.extend(cur)
            return outs
        if isinstance(val, IterV) or (isinstance(val, Ref) and val.kind in ('elem', 'dict')):
            if n is None:
                return [(None, st)]
        if isinstance(val, Unknown):
            if n is None:
                return [(None, st)]
            return [(tuple(Unknown('unpacked') for _ in range(n)), st)]
        if n is None:
            return [(None, st)]
        self.note(f'unpacking of {type(val).__name__}')
        return [(tuple(Unknown('unpacked') for _ in range(n)), st)]

    # ------------------------------------------------------------ iteration
    def iter_spec(self, v: Val, st: State, node):
        from .model import IterSpec
        if isinstance(v, TupleV):
            return IterSpec(len(v.items), len(v.items), list(v.items), None, 'tuple')
        if isinstance(v, NoneV):
            return self.exc('TypeError', st, node, "'NoneType' object is not iterable")
        if isinstance(v, Const) and isinstance(v.v, str):
            return IterSpec(0, None, None, lambda s, k: [(StrV(('char',)), s)], 'str')
        if isinstance(v, Ref) and v.kind == 'elem':
            return self.children_spec(v, st, live=True)
        if isinstance(v, Ref) and v.kind == 'dict':
            d: DictE = st.get(v.sym)
            if d.exact:
                return IterSpec(len(d.items), len(d.items), [k for k, _ in d.items], None, 'dict')
            return IterSpec(0, None, None, lambda s, k: [(Unknown('dict key'), s)], 'dict')
        if isinstance(v, Ref) and v.kind == 'list' and st.get(v.sym).kind == 'repeat':
            reps = st.get(v.sym).items
            return IterSpec(2, None, None, lambda s, k, reps=reps: [(r, s if i == len(reps) - 1 else s.copy()) for i, r in enumerate(reps)], 'itertools.repeat', ordered=True)
        if isinstance(v, Ref) and v.kind == 'list' and st.get(v.sym).kind == 'count':
            return IterSpec(2, None, None, lambda s, k: [(NumV(('count',)), s)], 'itertools.count', ordered=True)
        if isinstance(v, Ref) and v.kind == 'list':
            return self.list_spec(v, st, node)
        if isinstance(v, IterV):
            if v.kind == 'enumerate':
                return self.enumerate_spec(v, st, node)
            if v.kind == 'items':
                d: DictE = st.get(v.src.sym)
                if d.exact:
                    return IterSpec(len(d.items), len(d.items), [TupleV((a, b)) for a, b in d.items], None, 'dict.items')
                return IterSpec(0, None, None, lambda s, k: [(TupleV((Unknown('key'), Unknown('value'))), s)], 'dict.items')
            if v.kind == 'zip' and len(v.src.items) == 2 and isinstance(v.src.items[0], Ref) and v.src.items[0].kind == 'list' \
                    and st.get(v.src.items[0].sym).kind == 'count' and st.get(v.src.items[0].sym).spec[1] == Const(1):
                # zip(itertools.count(start), xs) is enumerate(xs, start)
                return self.enumerate_spec(IterV('enumerate', v.src.items[1], st.get(v.src.items[0].sym).spec[0]), st, node)
            if v.kind == 'zip':
                specs = [self.iter_spec(x, st, node) for x in v.src.items]
                Raise = _Raise()
                for sp in specs:
                    if isinstance(sp, Raise):
                        return sp
                endless = [sp for sp in specs if sp.descr.startswith('itertools.')]
                finite = [sp for sp in specs if sp not in endless] or specs
                lo = min(sp.lo for sp in finite)
                his = [sp.hi for sp in finite if sp.hi is not None]
                hi = min(his) if his else None

                def make(s, k, specs=specs):
                    outs = [((), s)]
                    for sp in specs:
                        nxt = []
                        for items, s1 in outs:
                            alts = [(sp.exact[k], s1)] if sp.exact is not None and k < len(sp.exact) else sp.make(s1, k)
                            for x, s2 in alts:
                                nxt.append((items + (x,), s2))
                        outs = nxt
                    return [(TupleV(it), s2) for it, s2 in outs]
                # zip() stops with its shortest argument: a sequence of known length next to one that can be longer truncates the latter
                fixed = [len(sp.exact) for sp in specs if sp.exact is not None and sp.descr in ('tuple', 'literal') and len(sp.exact) > 0]
                longer = [sp for sp in finite if sp.exact is None and sp.descr != 'unknown' and (sp.hi is None or (fixed and sp.hi > min(fixed)))]
                if fixed and longer and not endless:
                    self.hook('zip-truncate', st, node, length=min(fixed), what=longer[0].descr)
                if all(sp.exact is not None for sp in specs):
                    n = min(len(sp.exact) for sp in specs)
                    return IterSpec(n, n, [TupleV(tuple(sp.exact[i] for sp in specs)) for i in range(n)], None, 'zip')
                return IterSpec(lo, hi, None, make, 'zip')
        if isinstance(v, ExtV) and v.name in ('result:itertools.count', 'result:itertools.cycle', 'result:itertools.repeat'):
            # an endless supplier: it never ends a zip(); the numbers themselves are opaque
            return IterSpec(2, None, None, lambda s, k: [(NumV(('count',)), s)], v.name[len('result:'):], ordered=True)
        if isinstance(v, Unknown) or isinstance(v, ExtV):
            self.note(f'iteration over unknown value {norm(node) if node is not None else ""}')
            return IterSpec(0, None, None, lambda s, k: [(Unknown('element of unknown iterable'), s)], 'unknown', ordered=False)
        if isinstance(v, StrV):
            return IterSpec(0, None, None, lambda s, k: [(StrV(('char',)), s)], 'str')
        raise AnalysisError(f'iteration over {type(v).__name__} at line {getattr(node, "lineno", "?")}')

    def children_spec(self, p: Ref, st: State, live: bool, enum_start=None):
        from .model import IterSpec
        pe: ElemE = st.get(p.sym)

        def make(s, k):
            pe2: ElemE = s.get(p.sym)
            c = s.new(ElemE(pe2.prov, None, p.sym, True, ('iterchild', S(p.sym)), schema=pe2.schema))
            self.hook('iter-child', s, None, parent=p, child=Ref('elem', c), live=live)
            return [(Ref('elem', c), s)]
        known = any(isinstance(e, ElemE) and e.parent == p.sym and e.attached is True and not (e.origin and e.origin[0] == 'iterchild') for e in st.heap.values())
        sp = IterSpec(1 if known else 0, None, None, make, f'children({self.describe(p, st)})')      # a parent with a known attached child is not empty
        if live:
            sp.live_parent = p.sym
        return sp

    def list_spec(self, v: Ref, st: State, node):
        from .model import IterSpec
        le: ListE = st.get(v.sym)
        if le.kind == 'lit':
            return IterSpec(len(le.items), len(le.items), list(le.items), None, 'literal', ordered=le.ordered)

        def make(s, k, v=v):
            return self.list_elem(v, s, k, node)
        if le.kind in ('map', 'chain', 'set') and not le.items and le.lo == 0:
            # a derived list without a single element alternative is empty
            return IterSpec(0, 0, [], None, 'empty ' + le.kind, ordered=le.ordered)
        sp = IterSpec(le.lo, le.hi, None, make, self.describe(v, st), ordered=le.ordered)
        sp.listsym = v.sym
        desc = (st.mon.get('descend_of') or {}).get(v.sym)
        if desc is not None:
            sp.live_parent = desc         # Element.iter() walks the live tree
        return sp

    def list_elem(self, v: Ref, st: State, k, node):
        """A fresh generic element of list *v* (for the k-th iteration)."""
        le: ListE = st.get(v.sym)
        if le.kind in ('findall',):
            if le.parent is None or le.parent not in st.heap:
                sym = st.new(ElemE('UNK', le.tag, None, True, ('elem-of', 'path result')))
                return [(Ref('elem', sym), st)]
            pe: ElemE = st.get(le.parent)
            sym = st.new(ElemE(pe.prov, le.tag, le.parent, True, ('each', S(le.parent), le.tag), schema=pe.schema))
            return [(Ref('elem', sym), st)]
        if le.kind in ('children', 'live'):
            pe: ElemE = st.get(le.parent)
            sym = st.new(ElemE(pe.prov, None, le.parent, True, ('iterchild', S(le.parent)), schema=pe.schema))
            return [(Ref('elem', sym), st)]
        if le.kind in ('map', 'accum', 'set', 'chain'):
            outs = []
            if not le.items:
                return [(Unknown('element of ' + le.kind), st)]
            for i, tmpl in enumerate(le.items):
                s = st if i == len(le.items) - 1 else st.copy()
                owned = le.owned[i] if i < len(le.owned) else ()
                inst = self.instantiate_template(tmpl, owned, s)
                if le.kind == 'accum' and isinstance(inst, Ref) and inst.kind == 'elem':
                    fl = dict(s.mon.get('sym:fromlist') or {})
                    fl[inst.sym] = v.sym
                    s.mon['sym:fromlist'] = fl
                outs.append((inst, s))
            if len(outs) > 1:
                self.stats['forks'] += 1
            return outs
        if le.kind in ('reorder', 'slice') and le.src and le.src in st.heap:
            outs = self.list_elem(Ref('list', le.src), st, k, node)
            mark = f'{le.kind}{le.spec if le.kind == "slice" else ""}'
            for v, s in outs:
                if isinstance(v, Ref) and v.kind == 'elem':
                    e = s.get(v.sym)
                    if e.origin[0] in ('each', 'iterchild'):
                        s.put(v.sym, replace(e, origin=e.origin[:3] + (mark,) if e.origin[0] == 'each' else ('iterchild-unordered',) + e.origin[1:]))
            return outs
        if le.kind == 'str':
            return [(StrV(('elem-of', 'str list')), st)]
        return [(Unknown('element of ' + le.kind), st)]

    def instantiate_template(self, tmpl: Val, owned, st: State) -> Val:
        """Clone the heap objects owned by a list-element template so that every
        iteration works on distinct symbols."""
        if not owned:
            return tmpl
        mapping = {}
        for sym in owned:
            if sym in st.heap:
                st.serial += 1
                mapping[sym] = st.serial

        def mo(o):
            if isinstance(o, tuple):
                if len(o) == 2 and o[0] == '$':
                    return ('$', mapping.get(o[1], o[1]))
                return tuple(mo(x) for x in o)
            return o

        ts = st.mon.setdefault('textsyms', {})
        tsmap = {}
        for old, new in mapping.items():
            if old in ts:
                st.serial += 1
                ts[new] = st.serial
                tsmap[ts[old]] = ts[new]

        def mv(v):
            if isinstance(v, Ref):
                return Ref(v.kind, mapping.get(v.sym, v.sym))
            if isinstance(v, TupleV):
                return TupleV(tuple(mv(x) for x in v.items))
            if isinstance(v, StrV):
                return StrV(mo(v.origin), tsmap.get(v.sym, v.sym) if v.sym else 0)
            if isinstance(v, NoneV):
                return NoneV(mo(v.origin))
            if isinstance(v, BoundV):
                return BoundV(mv(v.recv), v.qual)
            if isinstance(v, LamV):
                return LamV(v.key, tuple((n, mv(x)) for n, x in v.captured), tuple(mv(x) for x in v.defaults), v.depth)
            if isinstance(v, PartV):
                return PartV(v.kind, mv(v.func) if v.func is not None else None, tuple(mv(x) for x in v.args), tuple((k, mv(x)) for k, x in v.kwargs))
            return v
        for old, new in mapping.items():
            e = st.heap[old]
            if isinstance(e, ElemE):
                e2 = replace(e, parent=mapping.get(e.parent, e.parent), origin=mo(e.origin),
                             copy_of=mapping.get(e.copy_of, e.copy_of), born=new)
            elif isinstance(e, IdxE):
                e2 = replace(e, parent=mapping.get(e.parent, e.parent), anchor=mapping.get(e.anchor, e.anchor), born=new)
            elif isinstance(e, ListE):
                e2 = replace(e, parent=mapping.get(e.parent, e.parent), src=mapping.get(e.src, e.src),
                             items=tuple(mv(x) for x in e.items), born=new)
            elif isinstance(e, ObjE):
                e2 = replace(e, fields=tuple((k, mv(v)) for k, v in e.fields), born=new)
            elif isinstance(e, DictE):
                e2 = replace(e, items=tuple((mv(a), mv(b)) for a, b in e.items), born=new)
            else:
                e2 = e
            st.heap[new] = e2
        for f in list(st.facts):
            if any(isinstance(x, int) and x in mapping for x in f[1:]):
                st.facts.add((f[0],) + tuple(mapping.get(x, x) if isinstance(x, int) else x for x in f[1:]))
        return mv(tmpl)

    def import_value(self, v: Val, src: State, dst: State, mark: int) -> Val:
        """Copy the heap objects younger than *mark* reachable from v in state *src* into *dst*."""
        syms = self.reachable(v, src, mark)
        if not syms:
            return v
        # ancestors created after *mark* exist only in the source state: they travel with the value
        extra = set()
        for sym in syms:
            e = src.heap.get(sym)
            p = e.parent if isinstance(e, ElemE) else None
            while p and p > mark and p not in extra and p not in syms and isinstance(src.heap.get(p), ElemE):
                extra.add(p)
                p = src.heap[p].parent
        if extra:
            syms = tuple(sorted(set(syms) | extra))
        saved = {}
        dst.serial = max(dst.serial, max(syms), src.serial)
        for sym in syms:
            if sym in dst.heap:
                saved[sym] = dst.heap[sym]
            dst.heap[sym] = src.heap[sym]
        ts_src = src.mon.get('textsyms') or {}
        ts_dst = dst.mon.setdefault('textsyms', {})
        for sym in syms:
            if sym in ts_src and sym not in ts_dst:
                ts_dst[sym] = ts_src[sym]
        out = self.instantiate_template(v, syms, dst)
        for sym in syms:
            if sym in saved:
                dst.heap[sym] = saved[sym]
            else:
                del dst.heap[sym]
        return out

    def reachable(self, v: Val, st: State, since: int):
        """Symbols reachable from v that were created after serial *since*."""
        out = []
        seen = set()

        def visit_o(o):
            if isinstance(o, tuple):
                if len(o) == 2 and o[0] == '$':
                    visit(o[1])
                else:
                    for x in o:
                        visit_o(x)

        def visit_v(x):
            if isinstance(x, Ref):
                visit(x.sym)
            elif isinstance(x, TupleV):
                for y in x.items:
                    visit_v(y)
            elif isinstance(x, (StrV, NoneV)):
                visit_o(x.origin)
            elif isinstance(x, BoundV):
                visit_v(x.recv)
            elif isinstance(x, LamV):
                for _, y in x.captured:
                    visit_v(y)
                for y in x.defaults:
                    visit_v(y)
            elif isinstance(x, PartV):
                if x.func is not None:
                    visit_v(x.func)
                for y in x.args:
                    visit_v(y)
                for _, y in x.kwargs:
                    visit_v(y)

        def visit(sym):
            if sym in seen or sym not in st.heap:
                return
            seen.add(sym)
            e = st.heap[sym]
            if sym > since:
                out.append(sym)
            if isinstance(e, ElemE):
                pass        # parents / origins of an element are shared structure, never owned by a template
            elif isinstance(e, IdxE):
                if e.anchor:
                    visit(e.anchor)
            elif isinstance(e, ListE):
                for y in e.items:
                    visit_v(y)
                if e.src:
                    visit(e.src)
                if e.kind == 'count' and e.spec:
                    for y in e.spec:
                        visit_v(y)
            elif isinstance(e, ObjE):
                for _, y in e.fields:
                    visit_v(y)
        visit_v(v)
        # an intermediate parent created after *since* that hangs below an owned element (e.g. the storyBody found
        # under a per-iteration story element) belongs to the template as well; shared ancestors never do
        owned = set(out)
        for sym in list(out):
            e = st.heap.get(sym)
            if not isinstance(e, ElemE):
                continue
            chain = []
            p = e.parent
            while p and p > since and p not in owned and p in st.heap and isinstance(st.heap[p], ElemE):
                chain.append(p)
                p = st.heap[p].parent
            if chain and p in owned:
                owned.update(chain)
                out.extend(chain)
        return tuple(sorted(set(out)))

    def enumerate_spec(self, v: IterV, st: State, node):
        from .model import IterSpec
        Raise = _Raise()
        inner = self.iter_spec(v.src, st, node)
        if isinstance(inner, Raise):
            return inner
        start = v.start
        src = v.src
        if isinstance(start, NoneV):
            return self.exc('TypeError', st, node, "'NoneType' object cannot be interpreted as an integer")
        over_children = isinstance(src, Ref) and (src.kind == 'elem' or (src.kind == 'list' and st.get(src.sym).kind in ('children', 'live')))
        base_entry = st.get(start.sym) if isinstance(start, Ref) and start.kind == 'idx' else None
        src_descr = self.describe(src, st)

        def counter(s: State, k, elem):
            if over_children and isinstance(start, Const) and start.v == 0 and isinstance(elem, Ref):
                parent = s.get(elem.sym).parent
                return Ref('idx', s.new(IdxE('fresh', parent, elem.sym)))
            if base_entry is not None:
                return self.adv_counter(s, base_entry, start, k, node)
            if isinstance(start, Const) and isinstance(start.v, int):
                if inner.exact is not None:
                    return Ref('idx', s.new(IdxE('const', const=start.v + k, descr=str(start.v + k))))
                pos = ((len(s.frames), s.frame.loops), min(k, 1)) if start.v == 0 else None
                return Ref('idx', s.new(IdxE('foreign', why=f'position in {src_descr}', descr=f'position in {src_descr}', pos=pos)))
            return Ref('idx', s.new(IdxE('foreign', why=f'enumerate counter starting at {self.describe(start, s)}')))

        if inner.exact is not None:
            # exact sequences are still driven through make() so that counters follow the protocol
            items = inner.exact

            def make_exact(s, k):
                return [(TupleV((counter(s, k, items[k]), items[k])), s)]
            sp = IterSpec(len(items), len(items), None, make_exact, f'enumerate({src_descr})')
            sp.adv = base_entry
            return sp

        def make(s, k):
            outs = []
            for elem, s2 in inner.make(s, k):
                if isinstance(elem, Raise):
                    outs.append((elem, s2))
                else:
                    outs.append((TupleV((counter(s2, k, elem), elem)), s2))
            return outs
        sp = IterSpec(inner.lo, inner.hi, None, make, f'enumerate({src_descr})', ordered=inner.ordered)
        sp.live_parent = getattr(inner, 'live_parent', None)
        sp.adv = base_entry
        sp.lazy_adv = base_entry is None and isinstance(start, Const) and start.v == 0 and not over_children
        sp.listsym = getattr(inner, 'listsym', None)
        return sp

    # -- enumerate(start=<index>) protocol: the counter stays a valid position only while every
    #    iteration inserts exactly one node at it (DESIGN §2.3, IDX-ADVANCE)
    # -- a list that is empty before a loop and appended to exactly once in every iteration has the length of the
    #    iterated sequence afterwards (xs = []; for y in ys: xs.append(f(y))  =>  len(xs) == len(ys))
    def _lapp_roll(self, st: State, depth, count):
        la = dict(st.mon.get('lapp') or {})
        if count == 0:
            empties = tuple(sorted(sym for sym, e in st.heap.items() if isinstance(e, ListE) and e.kind == 'lit' and e.hi == 0))
            la[depth] = (empties, (), None)
        elif depth in la:
            E, C, OK = la[depth]
            once = {s for s, n in C if n == 1}
            OK = tuple(sorted((set(E) & once) if OK is None else (set(OK) & once)))
            la[depth] = (E, (), OK)
        st.mon['lapp'] = la

    def lapp_note(self, st: State, sym):
        la = st.mon.get('lapp')
        if not la:
            return
        new = {}
        for d, (E, C, OK) in la.items():
            c = dict(C)
            c[sym] = min(c.get(sym, 0) + 1, 2)
            new[d] = (E, tuple(sorted(c.items())), OK)
        st.mon['lapp'] = new

    def _search_roll(self, st: State, depth, count):
        """which attached child X of the traversed parent has been compared (`is`) with the current child, and found different, in
        *every* iteration so far"""
        miss = dict(st.mon.get('srchmiss') or {})
        allm = dict(st.mon.get('srchall') or {})
        m = miss.pop(depth, None)
        if count == 0:
            allm[depth] = 'start'
        elif depth in allm:
            allm[depth] = m if (m is not None and allm[depth] in ('start', m)) else None
        st.mon['srchmiss'] = miss
        st.mon['srchall'] = allm

    def loop_exit(self, st, depth, spec, count):
        if count > 0 and getattr(spec, 'live_parent', None) is not None:
            self._search_roll(st, depth, count)
            x = (st.mon.get('srchall') or {}).get(depth)
            if isinstance(x, int) and x in st.heap:
                xe = st.get(x)
                if isinstance(xe, ElemE) and xe.attached is True and xe.parent == spec.live_parent:
                    # every child was compared with X and was not X, yet X is a child: this way out of the loop does not exist
                    st.mon['infeasible'] = True
        la = st.mon.get('lapp') or {}
        if depth not in la or count == 0:
            return
        self._lapp_roll(st, depth, count)
        E, C, OK = st.mon['lapp'][depth]
        for sym in OK or ():
            e = st.heap.get(sym)
            if isinstance(e, ListE) and e.kind in ('accum', 'lit'):
                if count < 2:
                    st.put(sym, replace(e, lo=count, hi=count))
                else:
                    st.put(sym, replace(e, lo=max(2, spec.lo), hi=spec.hi))

    def loop_iter_start(self, st: State, depth, spec, count):
        if spec.exact is None:
            self._lapp_roll(st, depth, count)
            if getattr(spec, 'live_parent', None) is not None:
                self._search_roll(st, depth, count)
        stale = [f for f in st.facts if f[0] in ('nonempty', 'emptystr') and ('each(' in f[1] or 'child(' in f[1])]
        for f in stale:
            st.facts.discard(f)          # string facts about the previous generic element
        logs = dict(st.mon.get('itlog') or {})
        prev = logs.get(depth, ())
        adv = dict(st.mon.get('adv') or {})
        if spec.adv is not None:
            status = adv.get(depth, ('ok', ''))
            if count > 0 and status[0] == 'ok':
                base: IdxE = spec.adv
                rel = [r for r in prev if r[1] == base.parent]
                counter_sym = (st.mon.get('advsym') or {}).get(depth)
                if len(rel) == 1 and rel[0][0] == 'insert' and rel[0][3] == counter_sym:
                    pass
                elif not rel:
                    if base.kind != 'end':
                        status = ('gapped', 'the counter advanced in an iteration that inserted nothing')
                else:
                    status = ('stale', 'the loop body ' + '+'.join(r[0] for r in rel) + 's children of the same parent while the counter advances by one')
            adv[depth] = status
            st.mon['adv'] = adv
        elif getattr(spec, 'lazy_adv', False) and count > 0:
            # `<index> + offset` with offset the 0-based counter: the same protocol, the base being known only at the sum
            status = adv.get(depth, ('ok', ''))
            if status[0] == 'ok':
                csym = (st.mon.get('advsym') or {}).get(depth)
                base = (st.mon.get('advbase') or {}).get(depth)
                cent = st.heap.get(csym) if csym is not None else None
                rel = [r for r in prev if cent is None or r[1] == cent.parent]
                if cent is not None and len(rel) == 1 and rel[0][0] == 'insert' and rel[0][3] == csym:
                    pass
                elif not rel:
                    if base is None or base.kind != 'end':
                        status = ('gapped', 'the counter advanced in an iteration that inserted nothing')
                elif cent is not None:
                    status = ('stale', 'the loop body ' + '+'.join(r[0] for r in rel) + 's children of the same parent while the counter advances by one')
                if status[0] != 'ok':
                    adv[depth] = status
                    st.mon['adv'] = adv
        logs[depth] = ()
        st.mon['itlog'] = logs
        lp = getattr(spec, 'live_parent', None)
        if lp is not None:
            ld = dict(st.mon.get('livedepth') or {})
            ld[depth] = lp
            st.mon['livedepth'] = ld

    def adv_counter(self, st: State, base: IdxE, start: Ref, k, node):
        depth = (len(st.frames), st.frame.loops)
        status = (st.mon.get('adv') or {}).get(depth, ('ok', ''))
        if status[0] == 'ok':
            if k == 0:
                e = st.heap.get(start.sym, base)
                e = replace(e, descr='')
            else:
                e = replace(base, descr='')
                if base.kind == 'slot':
                    e = replace(base, kind='fresh', anchor=None, why='position after the nodes inserted so far')
                live = st.heap.get(start.sym)
                if isinstance(live, IdxE) and live.kind == 'stale' and base.kind != 'end':
                    pass
        else:
            e = IdxE(status[0], base.parent, base.anchor, why=status[1])
        sym = st.new(replace(e, advloop=depth))
        m = dict(st.mon.get('advsym') or {})
        m[depth] = sym
        st.mon['advsym'] = m
        return Ref('idx', sym)

    def adv_sum(self, st: State, l: Ref, pos, node):
        """<index> + <0-based enumerate counter of an enclosing loop>"""
        depth, k = pos
        status = (st.mon.get('adv') or {}).get(depth, ('ok', ''))
        cur: IdxE = st.get(l.sym)
        bases = dict(st.mon.get('advbase') or {})
        if k == 0:
            bases[depth] = replace(cur, descr='')          # kept outside the heap: later inserts must not age it
            st.mon['advbase'] = bases
            e = replace(cur, descr='')
        else:
            base = bases.get(depth)
            if status[0] != 'ok':
                e = IdxE(status[0], cur.parent, cur.anchor, why=status[1])
            elif base is None:
                e = cur if cur.kind == 'end' else IdxE('gapped', cur.parent, cur.anchor, why='the counter advanced in iterations that inserted nothing')
            else:
                e = replace(base, descr='')
                if base.kind == 'slot':
                    e = replace(base, kind='fresh', anchor=None, why='position after the nodes inserted so far')
        sym = st.new(replace(e, advloop=depth))
        m = dict(st.mon.get('advsym') or {})
        m[depth] = sym
        st.mon['advsym'] = m
        return Ref('idx', sym)

    def loop_done(self, st: State, depth):
        for name in ('itlog', 'adv', 'advsym', 'advbase', 'livedepth', 'lapp', 'srchmiss', 'srchall'):
            m = st.mon.get(name)
            if m and depth in m:
                m = dict(m)
                del m[depth]
                st.mon[name] = m

    def mon_roots(self, st: State):
        roots = []
        for sym in (st.mon.get('advsym') or {}).values():
            roots.append(sym)
        for name, v in st.mon.items():
            if name.startswith('ref:') and isinstance(v, int):
                roots.append(v)
        return roots

    # -------------------------------------------------------- comprehensions
    def comprehension(self, e, st: State, kind):
        """Evaluate a comprehension eagerly over generic iterations; the result is a list whose
        element templates are re-instantiated (fresh symbols) on every later iteration."""
        Raise = _Raise()
        gens = e.generators
        if any(g.is_async for g in gens):
            raise AnalysisError('async comprehension')
        names = [n.id for g in gens for n in ast.walk(g.target) if isinstance(n, ast.Name)]
        saved = {n: st.frame.env[n] for n in names if n in st.frame.env}
        saved_comp = {k: st.frame.env[k] for k in ('%comp', '%compsrc') if k in st.frame.env}
        for k, v in saved_comp.items():
            st.frame.env[f'%sv{id(e)}{k}'] = v       # an enclosing comprehension's collected elements stay reachable (GC) meanwhile
        st.frame.env['%comp'] = TupleV(())
        st.frame.env.pop('%compsrc', None)
        base_mark = st.serial

        def elt_eval(s):
            if kind == 'dict':
                return [((TupleV(kv) if not isinstance(kv, Raise) else kv), s2) for kv, s2 in self.ev_all([e.key, e.value], s)]
            outs = []
            for v, s2 in self.ev(e.elt, s):
                if isinstance(v, IterV):
                    # an element that is itself a lazy zip()/enumerate() object is materialised: list templates can be cloned, iterators cannot
                    outs.extend(self.builtin('list', [v], {}, s2, e.elt))
                else:
                    outs.append((v, s2))
            return outs

        first = self.ev(gens[0].iter, st)
        exact_done = []
        if len(gens) == 1:
            # a short sequence known element by element (tuple, literal list) is mapped element by element: the result is exact
            rest = []
            for it, s1 in first:
                sp = None if isinstance(it, Raise) else self.iter_spec(it, s1, gens[0].iter)
                if sp is not None and not isinstance(sp, Raise) and sp.exact is not None and len(sp.exact) <= 8:
                    if kind == 'dict':
                        # exact only when every key is a concrete value; tried on a copy, the general path otherwise
                        try:
                            exact_done.extend(self._comp_exact(e, gens[0], sp, s1.copy(), kind, elt_eval, names, saved, saved_comp))
                        except _InexactDict:
                            rest.append((it, s1))
                        continue
                    exact_done.extend(self._comp_exact(e, gens[0], sp, s1, kind, elt_eval, names, saved, saved_comp))
                else:
                    rest.append((it, s1))
            first = rest
            if not first:
                return exact_done

        def joiner(states):
            """Join states that differ only in the set of element templates collected so far
            (union of the templates): keeps the number of loop-head states linear instead of a powerset."""
            groups = {}
            for tagk, s in states:
                k = (tagk, s.key(ignore=('%comp',)))
                if k not in groups:
                    groups[k] = (tagk, s)
                    continue
                base = groups[k][1]
                pend = base.frame.env.get('%comp', TupleV(()))
                have = {repr(self._vk(x, base)) for x in pend.items}
                for t in s.frame.env.get('%comp', TupleV(())).items:
                    if repr(self._vk(t, s)) not in have:
                        t2 = self.import_value(t, s, base, base_mark)
                        pend = TupleV(pend.items + (t2,))
                        have.add(repr(self._vk(t2, base)))
                base.frame.env['%comp'] = pend
            return list(groups.values())

        def run(gi, s):
            g = gens[gi]
            res = []
            for it, s1 in (first if gi == 0 else self.ev(g.iter, s)):
                if isinstance(it, Raise):
                    res.append((('raise', it.exc), s1))
                    continue
                if gi == 0:
                    s1.frame.env['%compsrc'] = it

                def body(elem, s2, g=g, gi=gi):
                    outs = []
                    for ctl, s3 in self.assign(g.target, elem, s2, e):
                        if ctl != 'next':
                            outs.append((ctl, s3))
                            continue
                        conds = [(True, s3)]
                        for c in g.ifs:
                            nxt = []
                            for ok, s4 in conds:
                                if ok is not True:
                                    nxt.append((ok, s4))
                                else:
                                    nxt.extend(self.cond(c, s4))
                            conds = nxt
                        for ok, s4 in conds:
                            if isinstance(ok, Raise):
                                outs.append((('raise', ok.exc), s4))
                            elif not ok:
                                self.hook('comp-skip', s4, e, gen=g)
                                outs.append(('next', s4))
                            elif gi + 1 < len(gens):
                                outs.extend(run(gi + 1, s4))
                            else:
                                for v, s5 in elt_eval(s4):
                                    if isinstance(v, Raise):
                                        outs.append((('raise', v.exc), s5))
                                        continue
                                    self.hook('comp-yield', s5, e, value=v)
                                    self.forget_facts(s5, self._elem_mark(elem, s5))
                                    pend = s5.frame.env.get('%comp', TupleV(()))
                                    key = self._vk(v, s5)
                                    if not any(self._vk(x, s5) == key for x in pend.items):
                                        s5.frame.env['%comp'] = TupleV(pend.items + (v,))
                                    outs.append(('next', s5))
                    return outs
                exits, escapes = self.run_loop(it, s1, body, e, joiner=joiner)
                for ctl, s2 in escapes:
                    if isinstance(ctl, tuple) and ctl[0] == 'raise':
                        res.append((ctl, s2))
                    else:
                        raise AnalysisError('control flow escape from comprehension')
                res.extend(('next', s2) for _, s2 in exits)
            return res

        final = list(exact_done)
        for ctl, s in run(0, st):
            pend = s.frame.env.pop('%comp', TupleV(()))
            it = s.frame.env.pop('%compsrc', None)
            for n in names:
                s.frame.env.pop(n, None)
            s.frame.env.update(saved)
            for k in list(saved_comp):
                kept = s.frame.env.pop(f'%sv{id(e)}{k}', None)
                s.frame.env[k] = kept if kept is not None else saved_comp[k]
            if ctl != 'next':
                final.append((Raise(ctl[1]), s))
                continue
            templates = pend.items
            owned = tuple(self.reachable(t, s, base_mark) for t in templates)
            lo, hi, ordered, srcsym, stages = self._src_bounds(it, s)
            filtered = any(g.ifs for g in gens)
            if filtered or len(gens) > 1:
                lo = 0
            if len(gens) > 1:
                hi = None
            if not templates:
                hi = 0
                lo = 0
            lk = 'set' if kind == 'set' else 'map'
            stage = 'map:' + norm(e.elt if kind != 'dict' else e.key)
            sym = s.new(ListE(lk, lo, hi, items=tuple(templates), owned=owned, src=srcsym,
                              ordered=ordered and kind != 'set',
                              stages=tuple(stages) + (('filter',) if filtered else ()) + (stage,)))
            if kind == 'dict':
                for t in templates:
                    if isinstance(t, TupleV) and len(t.items) == 2:
                        self.hook('dict-store', s, e, dict=None, key=t.items[0], value=t.items[1])
                dsym = s.new(DictE(tuple((t.items[0], t.items[1]) for t in templates if isinstance(t, TupleV)), False))
                final.append((Ref('dict', dsym), s))
            else:
                final.append((Ref('list', sym), s))
        return final

    def _comp_exact(self, e, g, sp, st: State, kind, elt_eval, names, saved, saved_comp):
        Raise = _Raise()
        paths = [((), st)]
        final = []
        for item in sp.exact:
            nxt = []
            for acc, s in paths:
                for ctl, s3 in self.assign(g.target, item, s, e):
                    if ctl != 'next':
                        final.append((Raise(ctl[1]), s3))
                        continue
                    conds = [(True, s3)]
                    for c in g.ifs:
                        nn = []
                        for ok, s4 in conds:
                            nn.extend(self.cond(c, s4) if ok is True else [(ok, s4)])
                        conds = nn
                    for ok, s4 in conds:
                        if isinstance(ok, Raise):
                            final.append((ok, s4))
                        elif not ok:
                            self.hook('comp-skip', s4, e, gen=g)
                            nxt.append((acc, s4))
                        else:
                            for v, s5 in elt_eval(s4):
                                if isinstance(v, Raise):
                                    final.append((v, s5))
                                else:
                                    self.hook('comp-yield', s5, e, value=v)
                                    nxt.append((acc + (v,), s5))
            paths = nxt
            if len(paths) > 256:
                raise AnalysisError('state explosion in an exact comprehension')
        out = []
        for v, s in final + [(None, s) for _, s in ()]:
            out.append((v, s))
        for acc, s in paths:
            stage = 'map:' + norm(e.elt if kind != 'dict' else e.value)
            if kind == 'dict':
                if not all(self._is_concrete(kv.items[0]) for kv in acc):
                    raise _InexactDict()
                d = {}
                for kv in acc:
                    d[kv.items[0]] = kv.items[1]
                out.append((Ref('dict', s.new(DictE(tuple(d.items()), True))), s))
                continue
            if kind == 'set':
                concrete = all(isinstance(x, (Const, ClsV)) for x in acc)
                items = tuple(dict.fromkeys(acc)) if concrete else acc
                # concrete values: the set is known exactly; otherwise equal elements may have collapsed
                sym = s.new(ListE('set', len(items) if concrete else min(len(acc), 1), len(items), items=items, ordered=False, stages=('literal', stage)))
            else:
                sym = s.new(ListE('lit', len(acc), len(acc), items=tuple(acc), ordered=sp.ordered,
                                  stages=('literal',) + (('filter',) if g.ifs else ()) + (stage,)))
            out.append((Ref('list', sym), s))
        for v, s in out:
            s.frame.env.pop('%comp', None)
            s.frame.env.pop('%compsrc', None)
            for n in names:
                s.frame.env.pop(n, None)
            s.frame.env.update(saved)
            for k in list(saved_comp):
                kept = s.frame.env.pop(f'%sv{id(e)}{k}', None)
                s.frame.env[k] = kept if kept is not None else saved_comp[k]
        return out

    def _elem_mark(self, elem, st: State) -> int:
        syms = []

        def walk(v):
            if isinstance(v, Ref):
                syms.append(v.sym)
            elif isinstance(v, TupleV):
                for x in v.items:
                    walk(x)
        walk(elem)
        return (min(syms) - 1) if syms else st.serial

    def forget_facts(self, st: State, mark: int):
        """Drop path facts (absent/present children, blank texts, lookup memo) learned about symbols
        younger than *mark*: they describe one generic element of a comprehension, whose template is
        re-instantiated without them anyway.  Forgetting is an over-approximation."""
        st.first = {k: v for k, v in st.first.items() if k[0] <= mark}
        st.lookups = {k: v for k, v in st.lookups.items() if k[0] <= mark}
        for name in ('sym:textnull',):
            m = st.mon.get(name)
            if m and any(k > mark for k in m):
                st.mon[name] = {k: v for k, v in m.items() if k <= mark}
        m = st.mon.get('nth')
        if m and any(k[1] > mark for k in m):
            st.mon['nth'] = {k: v for k, v in m.items() if k[1] <= mark}

    def _comp_mark(self, it, st):
        if isinstance(it, Ref) and it.sym in st.heap:
            return st.get(it.sym).born
        if isinstance(it, IterV):
            return self._comp_mark(it.src, st)
        return st.serial

    def _src_bounds(self, it, st: State):
        if isinstance(it, Ref) and it.kind == 'list':
            le: ListE = st.get(it.sym)
            return le.lo, le.hi, le.ordered, it.sym, le.stages
        if isinstance(it, Ref) and it.kind == 'elem':
            return 0, None, True, None, (f'children({self.describe(it, st)})',)
        if isinstance(it, TupleV):
            return len(it.items), len(it.items), True, None, ('tuple',)
        if isinstance(it, IterV):
            return self._src_bounds(it.src, st)
        return 0, None, False, None, ('unknown',)

    # ------------------------------------------------------------ containers
    def list_nth(self, v: Ref, k: int, st: State, node):
        """Element k (constant, may be negative) of a list known to be long enough."""
        le: ListE = st.get(v.sym)
        if le.kind == 'lit':
            return [(le.items[k], st)]
        if le.kind == 'findall' and le.parent and le.parent in st.heap:
            pe: ElemE = st.get(le.parent)
            key = ('nth', le.parent, le.tag, k)
            memo = st.mon.setdefault('nth', {})
            if key in memo and memo[key] in st.heap:
                return [(Ref('elem', memo[key]), st)]
            if k == 0 and (le.parent, le.tag) in st.first and st.first[(le.parent, le.tag)] != 'ABSENT' \
                    and st.first[(le.parent, le.tag)] in st.heap:
                return [(Ref('elem', st.first[(le.parent, le.tag)]), st)]
            sym = st.new(ElemE(pe.prov, le.tag, le.parent, True, ('nth', S(le.parent), le.tag, k), schema=pe.schema))
            memo[key] = sym
            if k == 0:
                st.first[(le.parent, le.tag)] = sym
            return [(Ref('elem', sym), st)]
        if le.kind in ('slice', 'reorder') and le.src:
            return self.list_elem(v, st, k, node)
        return self.list_elem(v, st, k, node)

    def model_getitem(self, c: Val, i: Val, st: State, node):
        Raise = _Raise()
        if isinstance(c, NoneV):
            return [(self.exc('TypeError', st, node, "'NoneType' object is not subscriptable"), st)]
        if isinstance(c, TupleV) and isinstance(i, Const) and isinstance(i.v, int):
            if -len(c.items) <= i.v < len(c.items):
                return [(c.items[i.v], st)]
            return [(self.exc('IndexError', st, node, 'tuple index out of range'), st)]
        if isinstance(c, Ref) and c.kind == 'list':
            le: ListE = st.get(c.sym)
            if isinstance(i, Ref) and i.kind == 'idx' and i.sym in st.heap and st.get(i.sym).kind == 'foreign' and 'len(' in (st.get(i.sym).why or ''):
                # xs[len(xs) - 1]: which element that is depends on a relation between the number and the list that is not tracked
                raise AnalysisError('list subscript computed by arithmetic on len(): outside the abstraction')
            if isinstance(i, Const) and i.v == -1 and le.kind != 'lit' and c.sym in (st.mon.get('lastapp') or {}):
                return [(st.mon['lastapp'][c.sym], st)]
            if isinstance(i, Const) and isinstance(i.v, int):
                need = i.v + 1 if i.v >= 0 else -i.v
                if le.kind == 'lit':
                    if need <= len(le.items):
                        return [(le.items[i.v], st)]
                    return [(self.exc('IndexError', st, node, 'list index out of range'), st)]
                outs = []
                for ok, s in self.len_cmp(c.sym, '>=', need, st):
                    if ok:
                        outs.extend(self.list_nth(c, i.v, s, node))
                    else:
                        outs.append((self.exc('IndexError', s, node, f'{self.describe(c, s)}[{i.v}]: list index out of range'), s))
                return outs
            self.note('list subscript with non-constant index')
            outs = list(self.list_elem(c, st, 0, node))
            s2 = st.copy()
            outs.append((self.exc('IndexError', s2, node, 'list index out of range'), s2))
            return outs
        if isinstance(c, Ref) and c.kind == 'dict':
            d: DictE = st.get(c.sym)
            attrib_of = (st.mon.get('attrib_of') or {}).get(c.sym)
            if attrib_of is not None:
                key = i.v if isinstance(i, Const) else '?'
                ovr = dict((st.mon.get('sym:attrovr') or {}).get(attrib_of, ()))
                if key in ovr:
                    if ovr[key] is None:
                        return [(self.exc('KeyError', st, node, f'attrib[{key!r}]'), st)]
                    return [(ovr[key], st)]
                s2 = st.copy()
                self.stats['forks'] += 1
                return [(StrV(('attr', S(attrib_of), key)), st),
                        (self.exc('KeyError', s2, node, f'attrib[{key!r}]'), s2)]
            if d.exact and self._is_concrete(i) and all(self._is_concrete(k) for k, _ in d.items):
                for k, v in d.items:
                    if k == i:
                        return [(v, st)]
                if d.default is not None:
                    return [(d.default, st)]          # collections.Counter: a missing key counts 0
                return [(self.exc('KeyError', st, node, self.describe(i, st)), st)]
            outs = []
            seen = set()
            kk = repr(self._vk(i, st))
            if ('nokey', c.sym, kk) in st.facts:
                return [(self.exc('KeyError', st, node, f'key {self.describe(i, st)} is not in the mapping'), st)]
            for k, v in d.items:
                if self._may_equal(k, i) and v not in seen:
                    seen.add(v)
                    outs.append((v, st.copy()))
            if not d.exact and not outs:
                outs.append((Unknown('dict value') if d.default is None else NumV(), st.copy()))
            if d.default is not None:
                return outs
            if ('haskey', c.sym, kk) not in st.facts:
                s2 = st.copy()
                outs.append((self.exc('KeyError', s2, node, f'key {self.describe(i, s2)} may be missing from the mapping'), s2))
            self.stats['forks'] += len(outs) - 1
            return outs
        if isinstance(c, Ref) and c.kind == 'elem':
            if isinstance(i, Ref) and i.kind == 'idx':
                ie: IdxE = st.get(i.sym)
                if ie.kind == 'fresh' and ie.parent == c.sym and ie.delta == 0 and ie.anchor in st.heap:
                    return [(Ref('elem', ie.anchor), st)]
            pe: ElemE = st.get(c.sym)
            sym = st.new(ElemE(pe.prov, None, c.sym, True, ('iterchild', S(c.sym)), schema=pe.schema))
            s2 = st.copy()
            return [(Ref('elem', sym), st), (self.exc('IndexError', s2, node, 'child index out of range'), s2)]
        if isinstance(c, ExtV) or isinstance(c, Unknown):
            if isinstance(c, ExtV):
                self.hook('ext-subscript', st, node, obj=c, key=i)
                return [(ExtV(f'{c.name}[{self.describe(i, st)}]'), st)]
            return [(Unknown('subscript'), st)]
        if isinstance(c, Const) and isinstance(c.v, str) and isinstance(i, Const) and isinstance(i.v, int):
            try:
                return [(Const(c.v[i.v]), st)]
            except IndexError:
                return [(self.exc('IndexError', st, node, 'string index out of range'), st)]
        if isinstance(c, StrV) and (isinstance(i, Const) and isinstance(i.v, int) or isinstance(i, (NumV, Unknown)) or (isinstance(i, Ref) and i.kind == 'idx')):
            if isinstance(i, Const) and i.v in (0, -1) and self.str_fact(st, self.vkey(c, st)) is True:
                return [(StrV(('char',)), st)]
            s2 = st.copy()
            self.stats['forks'] += 1
            return [(StrV(('char',)), st), (self.exc('IndexError', s2, node, f'string index out of range ({self.describe(c, s2)} may be empty)'), s2)]
        if isinstance(c, (StrV, Const)):
            return [(StrV(('char',)), st)]
        self.note(f'subscript of {type(c).__name__}')
        return [(Unknown('subscript'), st)]

    def _may_equal(self, k, i):
        if self._is_concrete(k) and self._is_concrete(i):
            return k == i
        if isinstance(k, TupleV) and isinstance(i, TupleV):
            return len(k.items) == len(i.items) and all(self._may_equal(a, b) for a, b in zip(k.items, i.items))
        if isinstance(k, Const) and isinstance(i, (StrV, Unknown)):
            return isinstance(k.v, str) or isinstance(i, Unknown)
        if isinstance(k, Const) and isinstance(i, NoneV):
            return False
        return True

    def model_slice(self, c: Val, spec, st: State, node):
        if isinstance(c, NoneV):
            return [(self.exc('TypeError', st, node, "'NoneType' object is not subscriptable"), st)]
        if isinstance(c, Ref) and c.kind == 'list':
            le: ListE = st.get(c.sym)
            if le.kind == 'lit' and spec is not None:
                items = le.items[slice(*spec)]
                return [(Ref('list', st.new(ListE('lit', len(items), len(items), items=items, ordered=le.ordered))), st)]
            lo, hi = 0, le.hi
            ordered = le.ordered
            if spec is not None:
                a, b, step = spec
                drop = 0
                if step not in (None, 1):
                    ordered = ordered and (step is None or step > 0)
                    lo, hi = 0, le.hi
                else:
                    if a is not None and a > 0:
                        drop += a
                    if b is not None and b < 0:
                        drop += -b
                    if (a is None or a >= 0) and (b is None or b < 0):
                        lo = max(le.lo - drop, 0)
                        hi = None if le.hi is None else max(le.hi - drop, 0)
                    elif b is not None and b >= 0 and (a is None or a >= 0):
                        width = b - (a or 0)
                        lo = min(max(le.lo - (a or 0), 0), max(width, 0))
                        hi = max(width, 0) if le.hi is None else min(max(le.hi - (a or 0), 0), max(width, 0))
                    else:
                        lo, hi = 0, le.hi
            sym = st.new(ListE('slice', lo, hi, src=c.sym, ordered=ordered, spec=spec,
                               stages=le.stages + (f'slice{spec}',), parent=le.parent, tag=le.tag))
            return [(Ref('list', sym), st)]
        if isinstance(c, TupleV) and spec is not None:
            return [(TupleV(c.items[slice(*spec)]), st)]
        if isinstance(c, (StrV, Const)):
            return [(StrV(('slice',)), st)]
        if isinstance(c, Ref) and c.kind == 'elem':
            sym = st.new(ListE('children', 0, None, c.sym, None, stages=('children-slice',)))
            return [(Ref('list', sym), st)]
        return [(Unknown('slice'), st)]

    # ------------------------------------------------------------- binop
    def model_binop(self, op, l: Val, r: Val, st: State, node):
        opn = type(op).__name__
        if isinstance(l, Const) and isinstance(r, Const):
            try:
                v = {'Add': lambda a, b: a + b, 'Sub': lambda a, b: a - b, 'Mult': lambda a, b: a * b,
                     'Mod': lambda a, b: a % b, 'FloorDiv': lambda a, b: a // b, 'Div': lambda a, b: a / b}[opn](l.v, r.v)
                return [(Const(v), st)]
            except KeyError:
                pass
            except ZeroDivisionError:
                return [(self.exc('ZeroDivisionError', st, node), st)]
            except TypeError:
                return [(self.exc('TypeError', st, node, 'unsupported operand types'), st)]
        if isinstance(l, Ref) and l.kind == 'obj':
            dunder = {'Add': '__add__', 'Sub': '__sub__', 'Mult': '__mul__'}.get(opn)
            fi = self.prog.classes[st.get(l.sym).cls].find(dunder) if dunder else None
            if fi is not None:
                return self.call_function(fi, [r], {}, st, node, self_val=l)
        if isinstance(l, NoneV) or isinstance(r, NoneV):
            which = self.describe(l if isinstance(l, NoneV) else r, st)
            return [(self.exc('TypeError', st, node, f'unsupported operand type(s) for {opn}: NoneType ({which})'), st)]
        if isinstance(l, TallyV) and isinstance(r, Const) and isinstance(r.v, int) and not isinstance(r.v, bool) and opn in ('Add', 'Sub') and abs(r.v) <= 2:
            d = r.v if opn == 'Add' else -r.v
            if abs(l.lag - d) > 3:
                return [(NumV(('counter',)), st)]          # drifted away from the number of inserted nodes: just a number
            return [(TallyV(l.origin, l.base, l.lag - d), st)]
        if opn == 'Add' and isinstance(r, Ref) and r.kind == 'idx' and isinstance(l, TallyV):
            l, r = r, l
        if opn == 'Add' and isinstance(l, Ref) and l.kind == 'idx' and isinstance(r, TallyV) and r.base == l.sym and l.sym in st.heap:
            # <position> + <tally of the nodes inserted there>: `lag` places before the anchor, whatever the count is by now
            e: IdxE = st.get(l.sym)
            if e.kind == 'fresh' and abs(r.lag) <= 3:
                return [(Ref('idx', st.new(IdxE('fresh', e.parent, e.anchor, delta=-r.lag, why=e.why))), st)]
            if e.kind == 'end' and abs(r.lag) <= 3:
                return [(Ref('idx', st.new(IdxE('end', e.parent, e.anchor, slack=-r.lag, why=e.why))), st)]
        if isinstance(l, Ref) and l.kind == 'idx' and isinstance(r, Const) and isinstance(r.v, int) and opn in ('Add', 'Sub'):
            e: IdxE = st.get(l.sym)
            d = r.v if opn == 'Add' else -r.v
            if e.ins >= 3 and e.kind in ('fresh', 'end'):
                # three or more nodes were inserted here since the index was taken: the offset is beyond the tracked range
                return [(Ref('idx', st.new(IdxE('stale', e.parent, e.anchor, why='constant offset from a position in front of which three or more nodes were inserted meanwhile'))), st)]
            if e.kind == 'end':
                ns = e.slack + d
                e2 = replace(e, slack=max(min(ns, 3), -3), descr='')
            elif e.kind == 'const':
                e2 = replace(e, const=e.const + d, descr=str(e.const + d))
            elif e.kind == 'fresh' and d == 1 and e.delta == 0 and e.succ is not None:
                # the position right after the node that was just inserted here
                k, a, sl = e.succ
                e2 = IdxE(k, e.parent, a, slack=sl, why=e.why)
            elif e.kind in ('fresh', 'slot'):
                e2 = replace(e, delta=max(-3, min(3, e.delta + d)), descr='', succ=None)
            else:
                e2 = e
            return [(Ref('idx', st.new(e2)), st)]
        if opn == 'Add' and isinstance(l, Ref) and isinstance(r, Ref) and l.kind == 'idx' and r.kind == 'idx':
            le_, re_ = st.get(l.sym), st.get(r.sym)
            if re_.pos is None and le_.pos is not None:
                l, r, le_, re_ = r, l, re_, le_
            if re_.pos is not None and le_.pos is None:
                return [(self.adv_sum(st, l, re_.pos, node), st)]
            if re_.kind == 'const' and le_.kind != 'const':
                return self.model_binop(op, l, Const(re_.const), st, node)
        if isinstance(l, Ref) and l.kind == 'idx' and isinstance(r, (Ref, LenV, NumV, Unknown)):
            e: IdxE = st.get(l.sym)
            return [(Ref('idx', st.new(IdxE('foreign', why=f'arithmetic on {self.describe(l, st)}'))), st)]
        if isinstance(l, LenV) and isinstance(r, Const) or isinstance(r, LenV) and isinstance(l, Const):
            return [(Ref('idx', st.new(IdxE('foreign', why=f'arithmetic on {self.describe(l if isinstance(l, LenV) else r, st)}'))), st)]
        strs = (StrV,)
        if isinstance(l, strs) or isinstance(r, strs) or (isinstance(l, Const) and isinstance(l.v, str)) or (isinstance(r, Const) and isinstance(r.v, str)):
            if opn == 'Add':
                ok = lambda x: isinstance(x, StrV) or (isinstance(x, Const) and isinstance(x.v, str)) or isinstance(x, Unknown)  # noqa: E731
                if ok(l) and ok(r):
                    return [(StrV(('concat',)), st)]
                return [(self.exc('TypeError', st, node, 'can only concatenate str to str'), st)]
            if opn == 'Mod':
                return [(StrV(('fmt',)), st)]
        if isinstance(l, Ref) and l.kind == 'list' and isinstance(r, Ref) and r.kind == 'list' and opn == 'Add':
            a, b = st.get(l.sym), st.get(r.sym)
            if a.kind == 'lit' and b.kind == 'lit':
                items = a.items + b.items
                return [(Ref('list', st.new(ListE('lit', len(items), len(items), items=items))), st)]
            hi = None if a.hi is None or b.hi is None else a.hi + b.hi
            return [(Ref('list', st.new(ListE('chain', a.lo + b.lo, hi, items=a.items + b.items, owned=a.owned + b.owned,
                                               ordered=a.ordered and b.ordered, stages=('concat',)))), st)]
        if isinstance(l, (NumV, Const, LenV, Unknown, ExtV)) and isinstance(r, (NumV, Const, LenV, Unknown, ExtV)):
            if isinstance(l, Unknown) or isinstance(r, Unknown) or isinstance(l, ExtV) or isinstance(r, ExtV):
                return [(Unknown('arithmetic'), st)]
            return [(NumV(), st)]
        if isinstance(l, ExtV) or isinstance(r, ExtV) or isinstance(l, Unknown) or isinstance(r, Unknown):
            return [(Unknown('arithmetic'), st)]
        self.note(f'binary {opn} on {type(l).__name__}/{type(r).__name__}')
        return [(Unknown('arithmetic'), st)]
