"""collectionflow: MosCollection.merge interpreted over a symbolic collection whose messages are opaque
objects that either merge or raise MosMergeError (DESIGN §4 C09)."""
from __future__ import annotations

import ast
from dataclasses import replace
from typing import Dict, List

from .domains import ClsV, Const, ExtV, ListE, NoneV, NumV, ObjE, Ref, State, StrV, TupleV, Unknown
from .engine import Engine
from .front import AnalysisError, Program, norm
from .harness import base_state, base_tag_literal, make_object, new_root
from .interp import Finding, Raise


class CollectionFlow(Engine):
    def __init__(self, prog, strict: bool):
        super().__init__(prog, entry=f'MosCollection.merge(strict={strict})')
        self.strict = strict
        self.sites: Dict[str, set] = {}
        self.outcomes: List[dict] = []

    # -- symbolic readers: built by the real MosReader.__init__ from a stub message, so that the way a reader stores
    #    its fields and its restore recipe is the code's own business
    def getattr_(self, o, name, st, node):
        if isinstance(o, Ref) and o.kind == 'obj':
            e = st.get(o.sym)
            if e.get('%stub') is not None:
                v = e.get('%' + name)
                return [(v if v is not None else Unknown(f'attribute {name} of a message stub'), st)]
            if e.get('%symbolic') is not None and not name.startswith('__'):
                # a restored message is opaque: its data attributes (properties over its document) are unknown values of a
                # schema-valid message, only its methods are followed
                f = self.prog.classes[e.cls].find(name)
                if f is None or f.kind == 'property':
                    return [(Unknown(f'attribute {name} of a restored message'), st)]
        return super().getattr_(o, name, st, node)

    def make_reader(self, st: State, *, message_id, ro_id, mos_type, restore_args):
        stub = st.new(ObjE(self.prog.cls('MosFile').qualname, tuple(sorted({'%stub': Const(True), '%message_id': message_id, '%ro_id': ro_id,
                                                                               '%__class__': mos_type}.items()))))
        outs = self.instantiate(ClsV(self.prog.cls('MosReader').qualname), [Ref('obj', stub)],
                                {'restore_fn': ExtV('symbolic-restore'), 'restore_args': restore_args}, st, None)
        good = [(v, s) for v, s in outs if not isinstance(v, Raise)]
        if len(good) != 1 or len(outs) != 1:
            raise AnalysisError('MosReader(<message>, restore_fn=..., restore_args=...) could not be interpreted to a single reader object')
        return good[0]

    # -- symbolic messages
    def opaque_ext(self, name, args, kwargs, st: State, node):
        if name == 'symbolic-restore':
            sym = st.new(ObjE(self.prog.cls('MosFile').qualname, (('%symbolic', Const(True)),)))
            m = dict(st.mon.get('sym:fresh') or {})
            m[sym] = True
            st.mon['sym:fresh'] = m
            st.emit('restore', f'msg#{sym}', site=self.site(node, st))
            self.count('restore', st, node)
            return [(Ref('obj', sym), st)]
        return super().opaque_ext(name, args, kwargs, st, node)

    def count(self, kind, st, node):
        func, n, file, line = self.attrib(st, node)
        self.sites.setdefault(kind, set()).add((func, norm(n) if n is not None else ''))

    def call_function(self, fi, args, kwargs, st, node, self_val=None):
        if fi.name == 'merge' and fi.cls is not None and fi.cls.name != 'MosCollection' and isinstance(self_val, Ref) \
                and self_val.kind == 'obj' and st.get(self_val.sym).get('%symbolic') is not None:
            return self.symbolic_merge(self_val, args, st, node)
        return super().call_function(fi, args, kwargs, st, node, self_val=self_val)

    def symbolic_merge(self, msg: Ref, args, st: State, node):
        func, n, file, line = self.attrib(st, node)
        self.count('dispatch', st, node)
        via_add = any(f.func is not None and f.func.name == '__add__' for f in st.frames)
        if not via_add:
            self.find_('APPLY-VIA-ADD', st, node, 'direct merge call',
                       'a message is merged without going through RunningOrder.__add__ (the completion guard is bypassed)')
        fresh = st.mon.get('sym:fresh') or {}
        if msg.sym not in fresh:
            self.find_('FRESH-READ', st, node, 'merged message object',
                       'a message object is merged that was not freshly restored in this iteration (cached or reused object)')
        else:
            fresh = dict(fresh)
            del fresh[msg.sym]
            st.mon['sym:fresh'] = fresh
        st.mon['iter_applied'] = True
        s_fail = st.copy()
        st.emit('merged', f'msg#{msg.sym}', site=self.site(node, st))
        st.mon['merged'] = min((st.mon.get('merged') or 0) + 1, 2)
        s_fail.emit('merge-failed', f'msg#{msg.sym}', site=self.site(node, s_fail))
        exc = self.exc('MosMergeError', s_fail, node, 'symbolic merge failure', implicit=False)
        ro = args[0] if args else NoneV()
        return [(ro, st), (exc, s_fail)]

    # -- rules
    def _in_coll_merge(self, st) -> bool:
        """in MosCollection.merge or in a method it calls (the loop body extracted into a helper)"""
        return any(f.func is not None and f.func.short == 'MosCollection.merge' for f in st.frames) \
            and not any(f.func is not None and f.func.name in ('__add__',) for f in st.frames)

    def on_caught(self, stmt, handler, exc, st):
        if self._in_coll_merge(st):
            st.mon['pending'] = (st.mon.get('pending') or 0) + 1
            st.mon['caught'] = exc.cls
            st.mon['iter_applied'] = True        # the message was handed over and refused (e.g. by the completion guard)

    def on_raise(self, stmt, exc, st):
        # the only exceptions merge() may let out are those of the step itself (re-raised unchanged)
        if self._in_coll_merge(st) and stmt.exc is not None:
            self.find_('STRICT-RERAISE', st, stmt, norm(stmt),
                       'merge() raises an exception of its own: the error that propagates is not the one of the failing message, '
                       'and the running order does not hold the result of the earlier messages')

    def on_warn(self, st, node, category, message):
        self.count('warn', st, node)
        name = category.qual.split(':')[-1] if isinstance(category, ClsV) else '?'
        pend = st.mon.get('pending') or 0
        if name != 'MosMergeNonStrictWarning':
            self.find_('ONE-WARNING', st, node, f'warn({name})', 'a skipped message must be reported with MosMergeNonStrictWarning')
        if pend <= 0:
            self.find_('ONE-WARNING', st, node, f'warn({name})', 'a warning is emitted although no merge failed (or the same failure is reported twice)')
        else:
            st.mon['pending'] = pend - 1
            st.mon['warned'] = True

    def on_reorder(self, st, node, list=None, how='', kwargs=None):
        self.find_('FOLD-LOOP', st, node, f'{how}(...)', 'the readers are re-ordered inside merge()')

    def _iteration_applied(self, st, count):
        """every reader's message must be handed to the running order (merged or failed); an iteration that does neither skips a message"""
        if count > 0 and st.mon.get('iter_applied') is False:
            self.find_('FOLD-LOOP', st, None, 'an iteration that applies nothing',
                       'a reader is skipped: its message is neither merged nor reported (the result is no longer the one-by-one sum of all messages)')

    def loop_iter_start(self, st, depth, spec, count):
        in_merge = st.frame.func is not None and st.frame.func.short == 'MosCollection.merge'
        if count > 0 and (st.mon.get('pending') or 0) > 0 and st.frame.func is not None and st.frame.func.name == 'merge':
            self.find_('ONE-WARNING', st, None, 'next iteration', 'a failed merge was swallowed without a MosMergeNonStrictWarning')
            st.mon['pending'] = 0
        if in_merge and getattr(spec, 'listsym', None) == st.mon.get('readers_sym'):
            self._iteration_applied(st, count)
            st.mon['iter_applied'] = False
        super().loop_iter_start(st, depth, spec, count)

    def run_loop(self, itval, st, body, node, joiner=None):
        top = st.frame.func is not None and st.frame.func.short == 'MosCollection.merge' and isinstance(node, ast.For)
        if top:
            self.count('loop', st, node)
            d = self.describe(itval, st)
            if 'READERS' not in d and not (isinstance(itval, Ref) and itval.sym == st.mon.get('readers_sym')):
                self.find_('FOLD-LOOP', st, node.iter, norm(node.iter), f'the merge loop does not iterate the collection\'s reader list itself ({d})')
        exits, escapes = super().run_loop(itval, st, body, node, joiner=joiner)
        if top:
            for kind, s in exits:
                if kind == 'exhausted':
                    self._iteration_applied(s, 1)
                if kind == 'break':
                    self.find_('NO-EARLY-EXIT', s, node, 'break', 'the merge loop is left before all messages were applied')
            for ctl, s in escapes:
                if isinstance(ctl, tuple) and ctl[0] == 'ret':
                    self.find_('NO-EARLY-EXIT', s, node, 'return', 'merge() returns from inside the loop')
        return exits, escapes

    def run(self):
        prog = self.prog
        st = base_state(self)
        root = new_root(st, 'RO', 'RO')
        ro = None
        for v, s in make_object(self, prog.cls('RunningOrder'), root, st):
            ro, st = v, s
        # the collection's running order was classified by its roCreate: that element is there
        req = dict(st.mon.get('sym:rootreq') or {})
        req[root.sym] = (base_tag_literal(self, prog.cls('RunningOrder')),)
        st.mon['sym:rootreq'] = req
        mark = st.serial
        rd, st = self.make_reader(st, message_id=NumV(), ro_id=StrV(('ro id',)), mos_type=Unknown('class'), restore_args=TupleV((StrV(('source',)),)))
        rsym = rd.sym
        lst = st.new(ListE('accum', 0, None, items=(rd,), owned=(self.reachable(rd, st, mark),), stages=('READERS',)))
        st.mon['readers_sym'] = lst
        coll_cls = prog.cls('MosCollection')
        csym = st.new(ObjE(coll_cls.qualname, tuple(sorted({'_mos_readers': Ref('list', lst), '_ro': ro}.items()))))
        coll = Ref('obj', csym)
        st.frame.env['mc'] = coll
        fi = coll_cls.find('merge')
        if fi is None:
            raise AnalysisError('anchor vanished: MosCollection.merge')
        self.signature = {a.arg: (norm(d) if d is not None else None) for a, d in zip(fi.node.args.kwonlyargs, fi.node.args.kw_defaults)}
        self.positional = [a.arg for a in fi.node.args.args]
        for v, s in self.call_function(fi, [], {'strict': Const(self.strict)}, st, None, self_val=coll):
            rec = {'result': ('raise ' + v.exc.cls) if isinstance(v, Raise) else 'return', 'pending': s.mon.get('pending') or 0,
                   'merged': s.mon.get('merged') or 0, 'warned': bool(s.mon.get('warned')),
                   'events': [e.kind for e in s.events() if e.kind in ('restore', 'merged', 'merge-failed', 'warn')][-12:]}
            if not isinstance(v, Raise):
                cur = s.get(csym).get('_ro')
                rec['ro_kept'] = cur == ro
            self.outcomes.append(rec)
        return self
