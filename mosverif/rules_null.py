"""nullflow: nullness + exception-flow analysis of classification, read accessors and inspect()
(DESIGN §4 C08, C12, C15, C17, C20)."""
from __future__ import annotations

import ast
from dataclasses import replace
from typing import Dict, List

from . import schema
from .domains import ClsV, Const, ElemE, ListE, NoneV, ObjE, Ref, State, StrV, TupleV, Unknown
from .engine import Engine
from .front import AnalysisError, Program, norm
from .harness import base_state, base_tag_literal, make_object, new_root
from .interp import Finding, Raise


class NullFlow(Engine):
    def __init__(self, prog, entry, summaries=None):
        super().__init__(prog, entry=entry, summaries=summaries)
        self.sites: Dict[str, set] = {}
        self.prints: List[dict] = []
        self.returns: List[dict] = []

    def count(self, kind, st, node):
        func, n, file, line = self.attrib(st, node)
        self.sites.setdefault(kind, set()).add((func, norm(n) if n is not None else ''))

    def on_elem_bool(self, st, node, elem):
        self.count('elem-bool', st, node)
        self.find_('NO-ELEM-BOOL', st, node, f'bool({self.describe(elem, st)})',
                   'an Element is used as a condition: its truth value is "has children" (a childless element is false) and '
                   'testing it emits DeprecationWarning on Python 3.12, which -W error turns into an exception')

    def on_print(self, st, node, args, kwargs):
        func, n, file, line = self.attrib(st, node)
        self.prints.append({'func': func, 'construct': norm(n) if n is not None else '',
                            'args': [self.describe(a, st) for a in args]})

    def escape(self, rule, v: Raise, s: State, allowed, why):
        exc = v.exc
        if any(self.hier.isa(exc.cls, a) for a in allowed):
            return
        file, line, func, text = exc.site if exc.site else ('?', 0, '?', '?')
        what = text if not exc.implicit else f'{exc.cls} from {text}'
        fd = Finding(rule, func, what, f'{exc.cls} escapes {self.entry} {why}: {exc.msg}', file, line, self.entry, self.witness(s))
        self.findings.setdefault(fd.key, fd)


def result(eng: NullFlow, kind, name, extra=None):
    from .analysis import finding_dict
    return {'kind': kind, 'name': name, 'ok': True, 'findings': [finding_dict(f) for f in eng.findings.values()],
            'sites': {k: sorted(v) for k, v in eng.sites.items()}, 'notes': eng.notes, 'stats': eng.stats,
            'functions': sorted(eng.functions_entered), 'prints': eng.prints, 'returns': eng.returns, **(extra or {})}


# ------------------------------------------------------------------ jobs
def jobs(prog: Program):
    out = [('classify', 'from_string'), ('classify', 'from_file'), ('classify', 'from_s3')]
    mos = prog.cls('MosFile')
    for c in prog.subclasses(mos):
        fi = c.find('inspect')
        if fi is not None and c.name not in ('MosFile', 'ElementAction'):
            out.append(('inspect', c.name))
    out.append(('accessors', 'RunningOrder'))
    return out


def run_job(prog: Program, kind, name):
    if kind == 'classify':
        return run_classify(prog, name)
    if kind == 'inspect':
        return run_inspect(prog, name)
    if kind == 'accessors':
        return run_accessors(prog)
    raise AnalysisError(f'unknown job {kind}')


# --------------------------------------------------------------- classify
def run_classify(prog: Program, ctor: str):
    mos = prog.cls('MosFile')
    fi = mos.find(ctor)
    if fi is None or fi.kind != 'classmethod':
        raise AnalysisError(f'anchor vanished: classmethod MosFile.{ctor}')
    eng = NullFlow(prog, f'MosFile.{ctor}')
    st = base_state(eng)
    nparams = len(fi.node.args.args) - 1
    args = [StrV(('argument', p.arg)) for p in fi.node.args.args[1:]]
    allowed = ['MosInvalidXML', 'UnknownMosFileType']
    if ctor == 'from_file':
        allowed.append('OSError')
    classes = set()
    for v, s in eng.call_function(fi, args, {}, st, None, self_val=ClsV(mos.qualname)):
        if isinstance(v, Raise):
            eng.escape('CLASSIFY-TOTAL', v, s, allowed, 'for a well-formed document')
            eng.returns.append({'result': 'raise ' + v.exc.cls})
        elif isinstance(v, Ref) and v.kind == 'obj':
            cls = s.get(v.sym).cls.split(':')[-1]
            classes.add(cls)
            eng.returns.append({'result': cls})
        else:
            eng.returns.append({'result': eng.describe(v, s)})
            fd = Finding('CLASSIFY-TOTAL', fi.short, 'return value', f'classification returns {eng.describe(v, s)} instead of a MosFile object',
                         fi.file, fi.node.lineno, eng.entry, eng.witness(s))
            eng.findings.setdefault(fd.key, fd)
    return result(eng, 'classify', ctor, {'classes': sorted(classes)})


# ---------------------------------------------------------------- inspect
def message_object(eng: NullFlow, cname: str):
    prog = eng.prog
    st = base_state(eng)
    root = new_root(st, 'MSG', 'MSG')
    ci = prog.cls(cname)
    outs = []
    for obj, s in make_object(eng, ci, root, st):
        if isinstance(obj, Raise):
            raise AnalysisError(f'{cname} constructor raises {obj.exc.cls}')
        req = dict(s.mon.get('sym:rootreq') or {})
        req[root.sym] = (base_tag_literal(eng, ci),)
        s.mon['sym:rootreq'] = req
        s.frame.env['msg'] = obj
        outs.append((obj, s))
    return outs


def run_inspect(prog: Program, cname: str):
    eng = NullFlow(prog, f'{cname}.inspect')
    fi = prog.cls(cname).find('inspect')
    for obj, st in message_object(eng, cname):
        for v, s in eng.call_function(fi, [], {}, st, None, self_val=obj):
            if isinstance(v, Raise):
                eng.escape('INSPECT-TOTAL', v, s, [], 'for a schema-shaped message')
    # which accessors does inspect() print?
    return result(eng, 'inspect', cname)


# -------------------------------------------------------------- accessors
RO_ACCESSORS = ['ro_slug', 'stories', 'start_time', 'end_time', 'duration', 'completed', 'script', 'body',
                'message_id', 'ro_id', 'base_tag', 'xml']


def public_properties(ci):
    seen, out = set(), []
    for c in ci.mro:
        for name, fi in c.methods.items():
            if fi.kind == 'property' and not name.startswith('_') and name not in seen:
                seen.add(name)
                out.append(fi)
    return out


def run_accessors(prog: Program):
    eng = NullFlow(prog, 'read accessors')
    st0 = base_state(eng)
    root = new_root(st0, 'RO', 'RO')
    ro_cls = prog.cls('RunningOrder')
    checked = []
    for ro, st in make_object(eng, ro_cls, root, st0):
        if isinstance(ro, Raise):
            raise AnalysisError('RunningOrder constructor raises')
        req = dict(st.mon.get('sym:rootreq') or {})
        req[root.sym] = (base_tag_literal(eng, ro_cls),)
        st.mon['sym:rootreq'] = req
        st.frame.env['ro'] = ro
        for fi in public_properties(ro_cls):
            if fi.name == 'dict':
                continue        # xmltodict helper "useful for testing"; not a documented read accessor of the model
            eng.entry = f'RunningOrder.{fi.name}'
            checked.append(eng.entry)
            for v, s in eng.call_function(fi, [], {}, st.copy(), None, self_val=ro):
                if isinstance(v, Raise):
                    eng.escape('NO-BUILTIN-ESCAPE', v, s, [], 'for a reachable running order')
                elif fi.name == 'stories':
                    check_elements(eng, prog, v, s, 'Story', checked)
        for name in ('__str__', '__repr__', 'inspect'):
            fi = ro_cls.find(name)
            if fi is None:
                continue
            eng.entry = f'RunningOrder.{name}'
            checked.append(eng.entry)
            for v, s in eng.call_function(fi, [], {}, st.copy(), None, self_val=ro):
                if isinstance(v, Raise):
                    eng.escape('NO-BUILTIN-ESCAPE', v, s, [], 'for a reachable running order')
    return result(eng, 'accessors', 'RunningOrder', {'checked': sorted(set(checked))})


def check_elements(eng: NullFlow, prog: Program, lst, st: State, cname: str, checked, depth=0):
    """Call every public property of every element template of a listing (stories, then items)."""
    if not (isinstance(lst, Ref) and lst.kind == 'list'):
        return
    ci = prog.cls(cname)
    seen_templates = set()
    for elem, s in eng.list_elem(lst, st.copy(), 0, None):
        if not (isinstance(elem, Ref) and elem.kind == 'obj'):
            continue
        for fi in public_properties(ci) + [f for f in (ci.find('__str__'), ci.find('__repr__')) if f is not None]:
            entry = f'{cname}.{fi.name}'
            eng.entry = entry
            checked.append(entry)
            s.frame.env['%elem'] = elem
            for v, s2 in eng.call_function(fi, [], {}, s.copy(), None, self_val=elem):
                if isinstance(v, Raise):
                    eng.escape('NO-BUILTIN-ESCAPE', v, s2, [], f'for a {cname.lower()} of a reachable running order')
                elif fi.name == 'items' and depth == 0 and cname == 'Story':
                    check_elements(eng, prog, v, s2, 'Item', checked, depth + 1)
                elif fi.name == 'body' and depth == 0 and cname == 'Story':
                    pass
