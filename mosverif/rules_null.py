"""nullflow: nullness + exception-flow analysis of classification, read accessors and inspect()
(DESIGN §4 C08, C12, C15, C17, C20)."""
from __future__ import annotations

import ast
from dataclasses import replace
from typing import Dict, List

from . import schema
from .domains import ClsV, Const, ElemE, ListE, NoneV, ObjE, Ref, State, StrV, TupleV, Unknown
from .engine import Engine
from .front import AnalysisError, Program, norm
from .harness import base_state, base_tag_literal, make_object, new_root
from .interp import Finding, Raise


class NullFlow(Engine):
    def __init__(self, prog, entry, summaries=None):
        super().__init__(prog, entry=entry, summaries=summaries)
        self.sites: Dict[str, set] = {}
        self.prints: List[dict] = []
        self.returns: List[dict] = []
        self.reads: Dict[str, set] = {}
        self.listings: Dict[str, dict] = {}
        self.parses: Dict[str, set] = {}
        self.truthkinds: Dict[tuple, set] = {}
        self.values: Dict[str, set] = {}

    def count(self, kind, st, node):
        func, n, file, line = self.attrib(st, node)
        self.sites.setdefault(kind, set()).add((func, norm(n) if n is not None else ''))

    def on_elem_bool(self, st, node, elem):
        self.count('elem-bool', st, node)
        self.find_('NO-ELEM-BOOL', st, node, f'bool({self.describe(elem, st)})',
                   'an Element is used as a condition: its truth value is "has children" (a childless element is false) and '
                   'testing it emits DeprecationWarning on Python 3.12, which -W error turns into an exception')

    def on_truth_val(self, st, node, val=None):
        """a condition evaluated on a value that is None on one path and a number on another: zero and "unknown" are conflated"""
        if node is None or st.frame.func is None:
            return
        key = (st.frame.func.short, norm(node), st.frame.func.file, getattr(node, 'lineno', 0))
        kinds = self.truthkinds.setdefault(key, set())
        kinds.add('none' if isinstance(val, NoneV) else 'num')
        if kinds == {'none', 'num'}:
            fd = Finding('ZERO-VS-NONE', key[0], f'truth value of {key[1]}',
                         'the tested value can be None (not in the document) or a number: 0 / 0.0 is then treated like a missing value although it is data',
                         key[2], key[3], self.entry, self.witness(st))
            self.findings.setdefault(fd.key, fd)

    def on_zip_truncate(self, st, node, length=0, what=''):
        # inside inspect(): a listing zipped with a fixed-length sequence stops after that many elements
        if any(f.func is not None and f.func.name == 'inspect' for f in st.frames):
            self.find_('INSPECT-SOURCES', st, node, f'zip(<{length} fixed values>, {what})',
                       f'the loop over {what} is zipped with a sequence of {length} values and stops there: a message that names more elements has the others left out of the report')

    def on_parse(self, st, node, name=None, args=(), kwargs=None):
        self.parses.setdefault(self.entry, set()).add((name.split('.')[-1], tuple(self.describe(a, st) for a in args), tuple(sorted(kwargs or {}))))

    def on_find(self, st, node, parent, tag, result, path):
        pe = st.get(parent.sym)
        self.reads.setdefault(self.entry, set()).add((pe.tag or '?', tag if isinstance(tag, str) else '?', 'path' if path else 'direct'))

    def on_descend(self, st, node, parent, how):
        pe = st.get(parent.sym)
        self.reads.setdefault(self.entry, set()).add((pe.tag or '?', how, 'descend'))

    def record_value(self, entry, v, st):
        """Abstract shape of a returned value (for ORDER-PIPE / NONE-ON-ABSENT obligations)."""
        if isinstance(v, Ref) and v.kind == 'list':
            le = st.get(v.sym)
            info = self.listings.setdefault(entry, {'ordered': True, 'stages': set(), 'sources': set(), 'elements': set()})
            info['ordered'] = info['ordered'] and le.ordered
            info['stages'].update(le.stages)
            for t in le.items:
                info['elements'].add(self.describe(t, st))
            self.values.setdefault(entry, set()).add('list')
        else:
            self.values.setdefault(entry, set()).add(type(v).__name__ + (':' + st.get(v.sym).cls.split(':')[-1] if isinstance(v, Ref) and v.kind == 'obj' else ''))

    def on_print(self, st, node, args, kwargs):
        func, n, file, line = self.attrib(st, node)
        base = None
        steps = []
        for a in args:
            stp = id_steps(self, a, st)
            if stp is not None:
                steps.append([list(x) for x in (stp[1:] if len(stp) > 1 and stp[0][1] == 'first' and stp[0][0].startswith('ro') else stp)])
        self.prints.append({'func': func, 'construct': norm(n) if n is not None else '', 'line': line,
                            'args': [self.describe(a, st) for a in args], 'id_steps': steps})

    def escape(self, rule, v: Raise, s: State, allowed, why):
        exc = v.exc
        if any(self.hier.isa(exc.cls, a) for a in allowed):
            return
        file, line, func, text = exc.site if exc.site else ('?', 0, '?', '?')
        what = text if not exc.implicit else f'{exc.cls} from {text}'
        fd = Finding(rule, func, what, f'{exc.cls} escapes {self.entry} {why}: {exc.msg}', file, line, self.entry, self.witness(s))
        self.findings.setdefault(fd.key, fd)


def result(eng: NullFlow, kind, name, extra=None):
    from .analysis import finding_dict
    return {'kind': kind, 'name': name, 'ok': True, 'findings': [finding_dict(f) for f in eng.findings.values()],
            'sites': {k: sorted(v) for k, v in eng.sites.items()}, 'notes': eng.notes, 'stats': eng.stats,
            'functions': sorted(eng.functions_entered), 'prints': eng.prints, 'returns': eng.returns,
            'reads': {k: sorted(v) for k, v in eng.reads.items()},
            'parses': {k: sorted(v) for k, v in eng.parses.items()},
            'listings': {k: {'ordered': v['ordered'], 'stages': sorted(v['stages']), 'elements': sorted(v['elements'])} for k, v in eng.listings.items()},
            'values': {k: sorted(v) for k, v in eng.values.items()}, **(extra or {})}


# ------------------------------------------------------------------ jobs
def jobs(prog: Program):
    # the two long jobs first (the pool hands jobs out in order)
    out = [('accessors', 'RunningOrder'), ('accessors-sub', 'RunningOrder subclasses'),
           ('classify', 'from_string'), ('classify', 'from_file'), ('classify', 'from_s3')]
    mos = prog.cls('MosFile')
    for c in prog.subclasses(mos):
        fi = c.find('inspect')
        if fi is not None and c.name not in ('MosFile', 'ElementAction'):
            out.append(('inspect', c.name))
    out.append(('notetable', 'Story.script'))
    for cname in schema.ACCESSOR_ROLES:
        out.append(('msgaccessors', cname))
    return out


def run_job(prog: Program, kind, name):
    if kind == 'classify':
        return run_classify(prog, name)
    if kind == 'inspect':
        return run_inspect(prog, name)
    if kind == 'accessors':
        return run_accessors(prog, part='base')
    if kind == 'accessors-sub':
        return run_accessors(prog, part='sub')
    if kind == 'notetable':
        return run_note_table(prog)
    if kind == 'msgaccessors':
        return run_msg_accessors(prog, name)
    raise AnalysisError(f'unknown job {kind}')


# --------------------------------------------------------------- classify
def run_classify(prog: Program, ctor: str):
    mos = prog.cls('MosFile')
    fi = mos.find(ctor)
    if fi is None or fi.kind != 'classmethod':
        raise AnalysisError(f'anchor vanished: classmethod MosFile.{ctor}')
    eng = NullFlow(prog, f'MosFile.{ctor}')
    st = base_state(eng)
    nparams = len(fi.node.args.args) - 1
    args = [StrV(('argument', p.arg)) for p in fi.node.args.args[1:]]
    allowed = ['MosInvalidXML', 'UnknownMosFileType']
    if ctor == 'from_file':
        allowed.append('OSError')
    classes = set()
    for v, s in eng.call_function(fi, args, {}, st, None, self_val=ClsV(mos.qualname)):
        if isinstance(v, Raise):
            eng.escape('CLASSIFY-TOTAL', v, s, allowed, 'for a well-formed document')
            eng.returns.append({'result': 'raise ' + v.exc.cls})
        elif isinstance(v, Ref) and v.kind == 'obj':
            cls = s.get(v.sym).cls.split(':')[-1]
            classes.add(cls)
            eng.returns.append({'result': cls})
        else:
            eng.returns.append({'result': eng.describe(v, s)})
            fd = Finding('CLASSIFY-TOTAL', fi.short, 'return value', f'classification returns {eng.describe(v, s)} instead of a MosFile object',
                         fi.file, fi.node.lineno, eng.entry, eng.witness(s))
            eng.findings.setdefault(fd.key, fd)
    return result(eng, 'classify', ctor, {'classes': sorted(classes)})


# ---------------------------------------------------------------- inspect
def message_object(eng: NullFlow, cname: str):
    prog = eng.prog
    st = base_state(eng)
    root = new_root(st, 'MSG', 'MSG')
    ci = prog.cls(cname)
    outs = []
    for obj, s in make_object(eng, ci, root, st):
        if isinstance(obj, Raise):
            raise AnalysisError(f'{cname} constructor raises {obj.exc.cls}')
        req = dict(s.mon.get('sym:rootreq') or {})
        req[root.sym] = (base_tag_literal(eng, ci),)
        s.mon['sym:rootreq'] = req
        s.frame.env['msg'] = obj
        outs.append((obj, s))
    return outs


def run_inspect(prog: Program, cname: str):
    eng = NullFlow(prog, f'{cname}.inspect')
    fi = prog.cls(cname).find('inspect')
    for obj, st in message_object(eng, cname):
        for v, s in eng.call_function(fi, [], {}, st, None, self_val=obj):
            if isinstance(v, Raise):
                eng.escape('INSPECT-TOTAL', v, s, [], 'for a schema-shaped message')
    # which accessors does inspect() print?
    return result(eng, 'inspect', cname)


# -------------------------------------------------------------- accessors
RO_ACCESSORS = ['ro_slug', 'stories', 'start_time', 'end_time', 'duration', 'completed', 'script', 'body',
                'message_id', 'ro_id', 'base_tag', 'xml']


def public_properties(ci):
    seen, out = set(), []
    for c in ci.mro:
        for name, fi in c.methods.items():
            if fi.kind == 'property' and not name.startswith('_') and name not in seen:
                seen.add(name)
                out.append(fi)
    return out


def run_accessors(prog: Program, part='all'):
    """part: 'base' = RunningOrder with its stories and items, 'sub' = the accessors as inherited by the subclasses of
    RunningOrder, 'all' = both (the two parts run as separate jobs and are merged by analysis.null_results)."""
    eng = NullFlow(prog, 'read accessors')
    st0 = base_state(eng)
    root = new_root(st0, 'RO', 'RO')
    ro_cls = prog.cls('RunningOrder')
    checked = []
    # the subclasses inherit every accessor but read a different base tag (roReplace): same obligations
    for sub in ([c for c in prog.subclasses(ro_cls) if c.name != 'RunningOrder'] if part in ('all', 'sub') else []):
        st1 = base_state(eng)
        root1 = new_root(st1, 'RO', 'RO')
        for ro, st in make_object(eng, sub, root1, st1):
            if isinstance(ro, Raise):
                raise AnalysisError(f'{sub.name} constructor raises')
            req = dict(st.mon.get('sym:rootreq') or {})
            req[root1.sym] = (base_tag_literal(eng, sub),)
            st.mon['sym:rootreq'] = req
            st.frame.env['ro'] = ro
            for fi in public_properties(sub):
                if fi.name == 'dict':
                    continue
                eng.entry = f'{sub.name}.{fi.name}'
                checked.append(eng.entry)
                for v, s in eng.call_function(fi, [], {}, st.copy(), None, self_val=ro):
                    if isinstance(v, Raise):
                        eng.escape('NO-BUILTIN-ESCAPE', v, s, [], f'for a {sub.name} object')
                        continue
                    eng.record_value(eng.entry, v, s)
    for ro, st in (make_object(eng, ro_cls, root, st0) if part in ('all', 'base') else []):
        if isinstance(ro, Raise):
            raise AnalysisError('RunningOrder constructor raises')
        req = dict(st.mon.get('sym:rootreq') or {})
        req[root.sym] = (base_tag_literal(eng, ro_cls),)
        st.mon['sym:rootreq'] = req
        st.frame.env['ro'] = ro
        for fi in public_properties(ro_cls):
            if fi.name == 'dict':
                continue        # xmltodict helper "useful for testing"; not a documented read accessor of the model
            eng.entry = f'RunningOrder.{fi.name}'
            checked.append(eng.entry)
            for v, s in eng.call_function(fi, [], {}, st.copy(), None, self_val=ro):
                if isinstance(v, Raise):
                    eng.escape('NO-BUILTIN-ESCAPE', v, s, [], 'for a reachable running order')
                    continue
                eng.record_value(f'RunningOrder.{fi.name}', v, s)
                if fi.name == 'stories':
                    check_elements(eng, prog, v, s, 'Story', checked)
                    eng.entry = f'RunningOrder.{fi.name}'
        for name in ('__str__', '__repr__', 'inspect'):
            fi = ro_cls.find(name)
            if fi is None:
                continue
            eng.entry = f'RunningOrder.{name}'
            checked.append(eng.entry)
            for v, s in eng.call_function(fi, [], {}, st.copy(), None, self_val=ro):
                if isinstance(v, Raise):
                    eng.escape('NO-BUILTIN-ESCAPE', v, s, [], 'for a reachable running order')
    return result(eng, 'accessors' if part != 'sub' else 'accessors-sub', 'RunningOrder', {'checked': sorted(set(checked))})


def check_elements(eng: NullFlow, prog: Program, lst, st: State, cname: str, checked, depth=0):
    """Call every public property of every element template of a listing (stories, then items)."""
    if not (isinstance(lst, Ref) and lst.kind == 'list'):
        return
    ci = prog.cls(cname)
    seen_templates = set()
    for elem, s in eng.list_elem(lst, st.copy(), 0, None):
        if not (isinstance(elem, Ref) and elem.kind == 'obj'):
            continue
        for fi in public_properties(ci) + [f for f in (ci.find('__str__'), ci.find('__repr__')) if f is not None]:
            entry = f'{cname}.{fi.name}'
            eng.entry = entry
            checked.append(entry)
            s.frame.env['%elem'] = elem
            for v, s2 in eng.call_function(fi, [], {}, s.copy(), None, self_val=elem):
                if isinstance(v, Raise):
                    eng.escape('NO-BUILTIN-ESCAPE', v, s2, [], f'for a {cname.lower()} of a reachable running order')
                    continue
                eng.record_value(entry, v, s2)
                if fi.name == 'items' and depth == 0 and cname == 'Story':
                    check_elements(eng, prog, v, s2, 'Item', checked, depth + 1)
                    eng.entry = entry


def completed_from_document(prog: Program, marker: str):
    """RunningOrder.completed (and MosCollection.completed) evaluated on objects *freshly constructed* over a document
    with / without the completion marker: the answer must come from the document, not from state kept on an object."""
    from .domains import ClsV, ElemE, ListE, NumV, ObjE, StrV, TupleV, Unknown
    from .domains import S as _S
    out = {}
    for present in (True, False):
        eng = NullFlow(prog, f'completed (marker {"present" if present else "absent"})')
        st = base_state(eng)
        root = new_root(st, 'RO', 'RO')
        if present:
            sym = st.new(ElemE('RO', marker, root.sym, True, ('first', _S(root.sym), marker), schema=False))
            st.first[(root.sym, marker)] = sym
        else:
            st.first[(root.sym, marker)] = 'ABSENT'
        vals, cvals = set(), set()
        ro_cls = prog.cls('RunningOrder')
        for ro, s in make_object(eng, ro_cls, root, st):
            if isinstance(ro, Raise):
                vals.add('raise ' + ro.exc.cls)
                continue
            req = dict(s.mon.get('sym:rootreq') or {})
            req[root.sym] = (base_tag_literal(eng, ro_cls),)
            s.mon['sym:rootreq'] = req
            for v, s2 in eng.getattr_(ro, 'completed', s.copy(), None):
                vals.add(('raise ' + v.exc.cls) if isinstance(v, Raise) else eng.describe(v, s2))
            # the collection's view: a collection object holding this running order and one reader of every kind
            coll = prog.cls('MosCollection')
            fi = coll.find('completed')
            if fi is not None:
                readers = []
                for cname in ('RunningOrderEnd', 'StorySend'):
                    rs = s.new(ObjE(prog.cls('MosReader').qualname, tuple(sorted({'_message_id': NumV(), '_ro_id': StrV(('ro id',)), '_mos_type': ClsV(prog.cls(cname).qualname),
                                                                                     '_restore_fn': Unknown('restore'), '_restore_args': TupleV(())}.items()))))
                    readers.append(Ref('obj', rs))
                lst = s.new(ListE('lit', len(readers), len(readers), items=tuple(readers)))
                cs_ = s.new(ObjE(coll.qualname, tuple(sorted({'_mos_readers': Ref('list', lst), '_ro': ro}.items()))))
                for v, s2 in eng.getattr_(Ref('obj', cs_), 'completed', s.copy(), None):
                    cvals.add(('raise ' + v.exc.cls) if isinstance(v, Raise) else eng.describe(v, s2))
        out[present] = (sorted(vals), sorted(cvals))
    return out


# ------------------------------------------------------------ note table
NOTE_REPRESENTATIVES = [
    # (text, expected script entry or None)   -- specification: kept iff non-blank and not wrapped in () or <>; value stripped
    (None, None), ('', None), ('   ', None), ('\n', None),
    ('hello', 'hello'), ('  hello  ', 'hello'),
    ('(note)', None), ('<note>', None), ('  (note)  ', None), (' <note>\n', None),
    ('(half', '(half'), ('half)', 'half)'), ('<half', '<half'), ('half>', 'half>'),
    ('(mixed>', '(mixed>'), ('<mixed)', '<mixed)'), ('a (b) c', 'a (b) c'), ('()', None), ('<>', None), ('(', '('), ('>', '>'),
]


def run_note_table(prog: Program):
    """NOTE-TABLE: decision table of Story.script over the finite string abstraction
    {None, empty, blank} + {first char class} x {last char class}, one representative literal per class.
    The interpreter folds str.strip/startswith/endswith on literals; any other string operation on the
    paragraph text makes the value non-literal and the row is reported as unrecognised."""
    from dataclasses import replace as _r
    from .domains import ListE, ElemE
    eng = NullFlow(prog, 'Story.script (note table)')
    story_cls = prog.cls('Story')
    fi = story_cls.find('script')
    if fi is None:
        raise AnalysisError('anchor vanished: Story.script')
    rows = []
    opaque = []
    plain_opaque = eng.opaque_ext

    def recording_opaque(name, args, kwargs, st, node):
        # a library call (re, unicodedata, string ...) inside the script filter: its result is not folded, the row cannot be judged
        opaque.append(name)
        return plain_opaque(name, args, kwargs, st, node)
    eng.opaque_ext = recording_opaque
    for text, expected in NOTE_REPRESENTATIVES:
        del opaque[:]
        st = base_state(eng)
        root = new_root(st, 'RO', 'RO')
        x = st.new(ElemE('RO', 'story', root.sym, True, ('first', ('$', root.sym), 'story')))
        p = st.new(ElemE('RO', 'p', x, True, ('first', ('$', x), 'p'), text=(Const(text) if text is not None else NoneV(('blank', ('$', x))))))
        lst = st.new(ListE('lit', 1, 1, items=(Ref('elem', p),)))
        st.mon['findall_override'] = {(x, 'p'): lst}
        outs = make_object(eng, story_cls, Ref('elem', x), st)
        got = set()
        for obj, s in outs:
            if isinstance(obj, Raise):
                got.add(('raise', obj.exc.cls))
                continue
            for v, s2 in eng.call_function(fi, [], {}, s, None, self_val=obj):
                if isinstance(v, Raise):
                    got.add(('raise', v.exc.cls))
                elif isinstance(v, Ref) and v.kind == 'list':
                    le = s2.get(v.sym)
                    if le.hi == 0 or not le.items:
                        got.add(('kept', None))
                    else:
                        for t in le.items:
                            got.add(('kept', t.v) if isinstance(t, Const) else ('unrecognised', eng.describe(t, s2)))
                else:
                    got.add(('unrecognised', eng.describe(v, s2)))
        if opaque:
            got.add(('unrecognised', 'library call ' + ', '.join(sorted(set(opaque)))))
        rows.append({'text': text, 'expected': expected, 'got': sorted(got, key=repr)})
    return {'kind': 'notetable', 'name': 'Story.script', 'ok': True, 'rows': rows, 'findings': [], 'notes': eng.notes,
            'sites': {}, 'stats': eng.stats, 'functions': sorted(eng.functions_entered)}


# ------------------------------------------------------- message accessors
def id_steps(eng: NullFlow, idval, st: State):
    """Provenance of an id value as steps (tag, selector) below the message's base tag."""
    o = getattr(idval, 'origin', None)
    if not (isinstance(o, tuple) and o and o[0] in ('text', 'blank')):
        return None
    sym = o[1][1]
    steps = []
    guard = 0
    while sym in st.heap and guard < 12:
        guard += 1
        e = st.get(sym)
        k = e.origin[0]
        if k == 'root':
            break
        if k == 'first':
            steps.append((e.tag, 'first'))
            sym = e.origin[1][1]
        elif k == 'each':
            steps.append((e.tag, 'each' + (e.origin[3].replace('slice', '') if len(e.origin) > 3 else '')))
            sym = e.origin[1][1]
        elif k == 'nth':
            steps.append((e.tag, 'first' if e.origin[3] == 0 else f'nth{e.origin[3]}'))
            sym = e.origin[1][1]
        elif k in ('copy', 'shallowcopy'):
            src = st.get(e.origin[1][1]) if e.origin[1][1] in st.heap else None
            steps.append(('copy', (src.stag or src.tag) if src else '?'))
            break
        else:
            steps.append((e.tag or '?', k))
            if len(e.origin) > 1 and isinstance(e.origin[1], tuple) and e.origin[1][0] == '$':
                sym = e.origin[1][1]
            else:
                break
    steps.reverse()
    return steps


def run_msg_accessors(prog: Program, cname: str):
    eng = NullFlow(prog, f'{cname} accessors')
    ci = prog.cls(cname)
    base = base_tag_literal(eng, ci)
    info: Dict[str, dict] = {}
    skip = {c.qualname for c in (prog.cls('MosFile'), prog.cls('ElementAction'), prog.cls('RunningOrder'))}
    props_ = [fi for fi in public_properties(ci) if fi.cls.qualname not in skip and fi.name != 'base_tag_name']
    for obj, st in message_object(eng, cname):
        for fi in props_:
            entry = f'{cname}.{fi.name}'
            eng.entry = entry
            rec = info.setdefault(fi.name, {'kind': set(), 'ids': set(), 'ordered': True, 'absent_id': False})
            for v, s in eng.call_function(fi, [], {}, st.copy(), None, self_val=obj):
                if isinstance(v, Raise):
                    eng.escape('ACCESSOR-TOTAL', v, s, [], 'for a schema-shaped message')
                    continue
                wrappers = []
                if isinstance(v, Ref) and v.kind == 'obj':
                    rec['kind'].add('single')
                    wrappers.append((v, s))
                elif isinstance(v, Ref) and v.kind == 'list':
                    rec['kind'].add('plural')
                    le = s.get(v.sym)
                    rec['ordered'] = rec['ordered'] and le.ordered
                    if le.hi != 0:
                        for elem, s2 in eng.list_elem(v, s.copy(), 0, None):
                            if isinstance(elem, Ref) and elem.kind == 'obj':
                                wrappers.append((elem, s2))
                elif isinstance(v, NoneV):
                    rec['kind'].add('none')
                else:
                    rec['kind'].add(type(v).__name__)
                for w, s2 in wrappers:
                    for idv, s3 in eng.getattr_(w, 'id', s2.copy(), None):
                        if isinstance(idv, Raise):
                            eng.escape('ACCESSOR-TOTAL', idv, s3, [], 'reading .id of an exposed element')
                            continue
                        steps = id_steps(eng, idv, s3)
                        if steps is None:
                            if isinstance(idv, NoneV):
                                rec['absent_id'] = True
                            else:
                                rec['ids'].add(('?', eng.describe(idv, s3)))
                        else:
                            if steps and steps[0] == (base, 'first'):
                                steps = steps[1:]
                            rec['ids'].add(tuple(steps))
    out = {k: {'kind': sorted(v['kind']), 'ids': sorted(v['ids'], key=repr), 'ordered': v['ordered'], 'absent_id': v['absent_id']} for k, v in info.items()}
    return result(eng, 'msgaccessors', cname, {'accessors': out})
